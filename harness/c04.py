"""C04 — MFPCA: orthonormal product-space eigenfunctions and coherent scores."""
from __future__ import annotations

import itertools
import warnings

import numpy as np

from harness import common as C
from harness import fd

IMPORTS = ("From FDAV Require Import Base.Num Base.Vec Base.Cmp Model.Stats Model.Scores Model.Mfpca Tie.C03 Tie.C04.")
RULE = ("multivariate datasets with P in 1..3 dense 1-D components on different grids / domains ([0,1], [-1,1], day-of-year, shifted; uniform "
        "and non-uniform) and different sizes, n_obs 8..14 (quick) / 8..30, univariate expansions UFPCA (2..3 components) and PSplines "
        "(2..3 segments, degree 2..3), n_components 1..min(4, sum of sizes), normalize off/on: the implementation's univariate scores, basis "
        "Gram matrices, eigenvalues / eigenvectors of G Q, eigenfunction coefficients, PACE scores and reconstructions are checked exactly "
        "in Q against the model (eigen-relation of the block-diagonal G times the score covariance, coefficient formula split per component, "
        "product-space orthonormality, inverse formula per component); metamorphic check under every permutation of the components; "
        "irregular components for well-formedness. Non-trivial: P >= 2; distinct by data and options.")
ASSUME = ["exact-arithmetic model fed with the implementation's univariate scores and basis Gram matrices (their correctness is C02/C05/C14's matter)",
          "eigen-solver, sqrt and the normalising factors are oracle values re-checked by the certificates",
          "product-space orthonormality is judged when the univariate score columns are centred to 1e-8 (true for UFPCA / P-spline "
          "expansions of centred data); otherwise counted as skipped"]


F16_WHAT = ("MFPCA(covariance) normalises its eigenfunctions with the UNCENTRED second moment of the univariate scores while the "
            "eigenvectors come from their centred covariance: with P-spline expansions (the data are centred with a PS-smoothed mean, so "
            "the scores are not centred) the eigenfunctions are not orthonormal in the product space")


def component(rng, n, kind, scale, basis_coefs, noise=0.02):
    m = int(rng.integers(9, 15))
    x = fd.grid(rng, m, kind)
    u = (x - x[0]) / (x[-1] - x[0])
    funs = np.array([np.sin(np.pi * u), np.cos(np.pi * u), u * (1 - u) * 4, np.sin(2 * np.pi * u)])
    load = np.round(rng.normal(size=(basis_coefs.shape[1], 4)) * 8) / 8
    X = scale * (basis_coefs @ load @ funs) + noise * scale * rng.normal(size=(n, m)) + scale * 0.5 * u
    return fd.dense(x, X), x


def fit_mfpca(data, expansions, K, normalize, method_smoothing=None):
    from FDApy.preprocessing.dim_reduction.mfpca import MFPCA
    with warnings.catch_warnings():
        warnings.simplefilter("ignore")
        f = MFPCA(n_components=K, method="covariance", univariate_expansions=[dict(e) for e in expansions], normalize=normalize)
        f.fit(data, method_smoothing=method_smoothing)
    return f


def pieces(f):
    S = np.asarray(f._scores_univariate, float)
    Gs = [np.asarray(b.basis.inner_product(), float) for b in f._basis_univariate]
    nus = np.asarray(f.eigenvalues, float)
    cs = np.asarray(f._eigenvectors, float).T          # one row per retained component
    As = [[np.asarray(comp.coefficients, float)[k] for comp in f.eigenfunctions.data] for k in range(len(nus))]
    return S, Gs, nus, cs, As


def qcube(As):
    return "[" + "; ".join("[" + "; ".join(C.qlist(a) for a in row) + "]" for row in As) + "]"


def run(rep, props, replay=None):
    quick = C.tier() == "quick"
    rng = np.random.default_rng([C.seed(), 4])
    runq = C.CoqRun("C04", IMPORTS, shard=3)
    todo = []
    kinds = ["uniform", "nonuniform", "doy", "shifted", "neg"]
    n_cases = 6 if quick else 40
    for i in range(n_cases):
        P = 1 + i % 3
        n = int(rng.integers(8, 15 if quick else 31))
        latent = np.round(rng.normal(size=(n, 3)) * np.array([2.0, 1.0, 0.5]) * 8) / 8
        many = i % 6 in (2, 4)          # many observations, rich variation: (nearly) all components can be asked for
        if many:
            n = int(rng.integers(36, 48))
            latent = np.round(rng.normal(size=(n, 6)) * np.array([2.0, 1.5, 1.0, 0.8, 0.6, 0.4]) * 8) / 8
        comps, grids = [], []
        for p in range(P):
            d, x = component(rng, n, kinds[(i + p) % len(kinds)], float([1.0, 5.0, 0.2][p % 3]), latent, noise=0.3 if many else 0.02)
            comps.append(d); grids.append(x)
        data = fd.multivariate(comps)
        exp_kind = ["UFPCA", "PSplines"][i % 2]
        if exp_kind == "UFPCA":
            expansions = [{"method": "UFPCA", "n_components": int(rng.integers(2, 4))} for _ in range(P)]
        else:
            expansions = [{"method": "PSplines", "n_segments": int(rng.integers(2, 4)), "degree": int(rng.integers(2, 4)),
                           "penalty": float(rng.choice([0.5, 2.0]))} for _ in range(P)]
        normalize = bool(i % 4 >= 2)
        m_est = sum((e["n_components"] if exp_kind == "UFPCA" else e["n_segments"] + e["degree"]) for e in expansions)
        k_fit = 2 if P == 1 else min(4, 2 * P)
        if many:
            k_fit = max(k_fit, min(m_est, n - 2))       # (nearly) every component: n_components ranges up to the sum of the sizes
        try:
            full = fit_mfpca(data, expansions, k_fit, normalize)
            S, Gs, nus, cs, As = pieces(full)
        except ModuleNotFoundError as e:
            rep.notes.append(f"skipped (environment): {e}")
            continue
        except Exception as e:  # noqa: BLE001
            rep.violation(f"MFPCA.fit raised {type(e).__name__}: {e}"[:300],
                          {"expansions": expansions, "P": P, "values": [C.hexf(c.values) for c in comps]})
            continue
        if not (np.all(np.isfinite(cs)) and np.all(nus > 0) and all(np.all(np.isfinite(a)) for row in As for a in row)):
            rep.dist["skipped-nonpositive-eigenvalue"] = rep.dist.get("skipped-nonpositive-eigenvalue", 0) + 1
            continue
        M = S.shape[1]
        sizes = [g.shape[0] for g in Gs]
        Qp = S.T @ S / (n - 1)
        nfs = np.array([1.0 / np.sqrt(c @ Qp @ c) for c in cs])
        rs = np.sqrt(nus)
        opts = {"P": P, "n_obs": n, "expansion": exp_kind, "sizes": sizes, "n_components": len(nus), "normalize": normalize,
                "grids": [kinds[(i + p) % len(kinds)] for p in range(P)]}
        key = (i, S.tobytes())
        replay_d = {**opts, "expansions": expansions, "grid_points": [C.hexf(g) for g in grids],
                    "values": [C.hexf(np.asarray(c.values)) for c in comps]}
        ssc = max(1.0, float(np.max(np.abs(S))))
        gsc = max(1.0, max(float(np.max(np.abs(g))) for g in Gs))
        def qS():
            return runq.mat(S)          # hoisted definitions belong to the NEXT term only: rebuild them per term

        def qG():
            return "[" + "; ".join(runq.mat(g) for g in Gs) + "]"
        t = runq.add(f"eig_ok {C.qlit(1e-7 * ssc * ssc * gsc)} {M}%nat {qG()} {qS()} {C.qlist(nus)} {C.qmat(cs)}")
        todo.append((t, "eigenpairs solve the eigenproblem of (block-diagonal Gram) x (score covariance)", key, opts, replay_d, None))
        asc = max(1.0, max(float(np.max(np.abs(a))) for row in As for a in row))
        t = runq.add(f"coef_ok {C.qlit(1e-7 * max(asc, float(nus.max()), 1.0))} {M}%nat {C.natlist(sizes)} {qS()} {C.qlist(nus)} {C.qlist(rs)} "
                     f"{C.qlist(nfs)} {C.qmat(cs)} {qcube(As)}")
        todo.append((t, "eigenfunction coefficients are (nf/sqrt(nu)) Q c split per component by the univariate sizes", key, opts, replay_d, None))
        centred = float(np.max(np.abs(S.mean(axis=0)))) <= 1e-8 * ssc
        t = runq.add(f"orth_ok {C.qlit(1e-6)} {qG()} {qcube(As)}")
        td = None
        if not centred:
            # defect model F16: with the CENTRED covariance in the normalisation the same eigenvectors give
            # orthonormal eigenfunctions (components that are not numerically null)
            keep = nus > 1e-6 * float(nus.max())
            Qc = np.cov(S.T)
            nfs_fixed = np.array([1.0 / np.sqrt(c @ Qc @ c) for c in cs])
            if keep.sum() >= 1:
                td = runq.add(f"orth_fixed_ok {C.qlit(1e-6)} {M}%nat {C.natlist(sizes)} {qG()} {qS()} {C.qlist(rs[keep])} "
                              f"{C.qlist(nfs_fixed[keep])} {C.qmat(cs[keep])}")
        todo.append((t, "eigenfunctions are orthonormal for the sum over components of the L2 inner products", key, opts, replay_d, td))
        monitors(rep, rng, runq, todo, full, data, comps, grids, expansions, normalize, S, nus, cs, exp_kind, centred, opts, key, replay_d)
    irregular_wellformed(rep, rng)
    expansion_defaults(rep, rng)
    mixed_expansions(rep, np.random.default_rng([C.seed(), 4, 9]))
    unit_monitor(rep, np.random.default_rng([C.seed(), 4, 7]))
    res = runq.run()
    seen = set()
    for t, what, key, opts, rp, td in todo:
        if (key, what) not in seen:
            seen.add((key, what))
            rep.case((key, what), nontrivial=opts["P"] >= 2, kind=f"P={opts['P']}/{opts['expansion']}/normalize={opts['normalize']}",
                     sample={**opts, "claim": what})
        if not res[t]:
            rep.disagreements_checked += 1
            if td is not None and res[td]:
                rep.known_finding("F16", F16_WHAT, opts)
                continue
            rep.violation(what + " — fails", {**rp, "claim": what})


def monitors(rep, rng, runq, todo, f, data, comps, grids, expansions, normalize, S, nus, cs, exp_kind, centred, opts, key, replay_d):
    n = S.shape[0]
    bad = []
    with warnings.catch_warnings():
        warnings.simplefilter("ignore")
        eg = f.eigenfunctions.to_grid()
        E = [np.asarray(c.values, float) for c in eg.data]
        pace = np.asarray(f.transform(None, method="PACE"), float)
    K = len(nus)
    # orthonormality on the grids (same quantity as the coefficient form when the Gram matrices use the trapezoid rule)
    if centred:
        Gm = sum(np.array([[np.trapz(E[p][j] * E[p][k], grids[p]) for k in range(K)] for j in range(K)]) for p in range(len(E)))
        if np.max(np.abs(Gm - np.eye(K))) > 1e-6:
            bad.append(f"eigenfunctions evaluated on their grids are not orthonormal (max dev {np.max(np.abs(Gm - np.eye(K))):.3g})")
    # PACE scores: S c; with UFPCA expansions uncorrelated with variance nu
    if np.max(np.abs(pace - S @ cs.T)) > 1e-9 * max(1.0, np.max(np.abs(S))):
        bad.append("PACE scores are not (univariate scores) x (eigenvectors)")
    if exp_kind == "UFPCA":
        cv = np.cov(pace.T) if K > 1 else np.array([[np.var(pace[:, 0], ddof=1)]])
        if np.max(np.abs(cv - np.diag(nus))) > 1e-6 * max(1.0, float(nus.max())):
            bad.append(f"PACE scores are not uncorrelated with variance = eigenvalues (max dev {np.max(np.abs(cv - np.diag(nus))):.3g})")
    # inverse_transform: per component mean + sqrt(w_p) * scores . eigenfunctions on that component's grid
    sc_rand = np.round(rng.normal(size=(3, K)) * 8) / 8
    with warnings.catch_warnings():
        warnings.simplefilter("ignore")
        rec = f.inverse_transform(sc_rand)
    wts = np.asarray(f.weights, float) if normalize else np.ones(len(E))
    for p in range(len(E)):
        mu = np.asarray(f.mean.data[p].values, float)[0]
        s = float(np.sqrt(wts[p]))
        R = np.asarray(rec.data[p].values, float)
        sc = max(1.0, float(np.max(np.abs(R))))
        t = runq.add(f"mclose {C.qlit(1e-8 * sc)} (inverse_model {E[p].shape[1]}%nat {C.qlist(mu)} {C.qlit(s)} {C.qmat(E[p])} "
                     f"{C.qmat(sc_rand)}) {C.qmat(R)}")
        todo.append((t, f"inverse_transform component {p} = mean + sqrt(w_p) * scores . eigenfunctions on its own grid", key, opts, replay_d, None))
        rg = np.asarray(rec.data[p].argvals["input_dim_0"], float)
        if R.shape[1] != len(grids[p]) or rg.shape != np.shape(grids[p]) or not np.array_equal(rg, np.asarray(grids[p], float)):
            bad.append(f"reconstruction of component {p} is not on that component's grid (sampling points "
                       f"[{rg[0]:.4g} .. {rg[-1]:.4g}] instead of [{grids[p][0]:.4g} .. {grids[p][-1]:.4g}])")
    # history: an MFPCA object first fitted on OTHER data (the components in reverse order: other grids and sizes per
    # position) and then on this dataset gives exactly what a fresh object gives
    P = len(comps)
    if P >= 2:
        from FDApy.preprocessing.dim_reduction.mfpca import MFPCA
        try:
            with warnings.catch_warnings():
                warnings.simplefilter("ignore")
                h = MFPCA(n_components=K, method="covariance", univariate_expansions=[dict(e) for e in expansions[::-1]],
                          normalize=normalize)
                h.fit(fd.multivariate(comps[::-1]), method_smoothing=None)
                try:      # USE the first fit before refitting (whatever is computed lazily gets computed now)
                    h.inverse_transform(np.asarray(h.transform(None, method="PACE"), float))
                    h.transform(None, method="NumInt")
                    h.eigenfunctions.to_grid()
                except Exception:  # noqa: BLE001
                    pass
                h.univariate_expansions = [dict(e) for e in expansions]
                h.fit(data, method_smoothing=None)
                Eh = [np.asarray(c.values, float) for c in h.eigenfunctions.to_grid().data]
                rec_h = h.inverse_transform(sc_rand)
            same = (np.array_equal(np.asarray(h.eigenvalues, float), np.asarray(f.eigenvalues, float))
                    and len(Eh) == len(E) and all(a_.shape == b_.shape and np.array_equal(a_, b_) for a_, b_ in zip(Eh, E)))
            if normalize and not np.array_equal(np.asarray(h.weights, float), np.asarray(f.weights, float)):
                same = False
            for p_ in range(len(E)):
                if not np.array_equal(np.asarray(rec_h.data[p_].values, float), np.asarray(rec.data[p_].values, float)):
                    same = False
            rep.case((key, "refit"), kind="history-refit/MFPCA")
            if not same:
                bad.append("a fit on this dataset after a fit on another dataset differs from a fresh fit (state kept from the earlier fit)")
        except AttributeError:
            pass            # univariate_expansions is not assignable: no refit with other expansions through the public API
        except Exception as e:  # noqa: BLE001
            bad.append(f"fit / inverse_transform on this dataset after the same estimator was fitted and used on another dataset "
                       f"raised {type(e).__name__}: {str(e)[:100]} (a fresh estimator works)")
    # permutation of the components
    if P >= 2:
        for perm in itertools.permutations(range(P)):
            if perm == tuple(range(P)):
                continue
            try:
                g = fit_mfpca(fd.multivariate([comps[q] for q in perm]), [expansions[q] for q in perm], K, normalize)
            except Exception as e:  # noqa: BLE001
                bad.append(f"permuted fit raised {type(e).__name__}")
                break
            nus2 = np.asarray(g.eigenvalues, float)
            gap_ok = K == 1 or np.min(np.abs(np.diff(np.sort(nus)))) > 1e-6 * float(nus.max())
            if len(nus2) != K:
                bad.append(f"number of components changes under the permutation {perm}")
                break
            if np.max(np.abs(np.sort(nus2) - np.sort(nus))) > 1e-7 * max(1.0, float(nus.max())):
                # a k-component fit keeps the first k pairs in SOLVER order (finding F1, decided by C01), and that
                # order changes with the permutation: compare the full spectra instead
                try:
                    Mtot = S.shape[1]
                    fa = np.sort(np.asarray(fit_mfpca(data, expansions, Mtot, normalize).eigenvalues, float))[::-1]
                    fb = np.sort(np.asarray(fit_mfpca(fd.multivariate([comps[q] for q in perm]), [expansions[q] for q in perm],
                                                      Mtot, normalize).eigenvalues, float))[::-1]
                except Exception:  # noqa: BLE001
                    fa = fb = None
                if fa is None or len(fa) != len(fb) or np.max(np.abs(fa - fb)) > 1e-7 * max(1.0, float(fa.max())):
                    bad.append(f"eigenvalues change under the permutation {perm} of the components")
                    break
                rep.dist["permutation: different k-subset kept (F1)"] = rep.dist.get("permutation: different k-subset kept (F1)", 0) + 1
                continue
            if gap_ok:
                with warnings.catch_warnings():
                    warnings.simplefilter("ignore")
                    E2 = [np.asarray(c.values, float) for c in g.eigenfunctions.to_grid().data]
                    pace2 = np.asarray(g.transform(None, method="PACE"), float)
                order1, order2 = np.argsort(-nus), np.argsort(-nus2)
                for a_, b_ in zip(order1, order2):
                    sgn = np.sign(np.sum(E[perm[0]][a_] * E2[0][b_])) or 1.0
                    for pos, q in enumerate(perm):
                        if np.max(np.abs(E[q][a_] - sgn * E2[pos][b_])) > 1e-6 * max(1.0, np.max(np.abs(E[q][a_]))):
                            bad.append(f"eigenfunction components are not permuted consistently under {perm}")
                            break
                    if np.max(np.abs(pace[:, a_] - sgn * pace2[:, b_])) > 1e-6 * max(1.0, np.max(np.abs(pace))):
                        bad.append(f"scores change (beyond sign) under the permutation {perm}")
                if bad:
                    break
    if bad:
        rep.violation("MFPCA: " + "; ".join(sorted(set(bad))), replay_d)


def expansion_defaults(rep, rng):
    """A component's expansion that omits `method` / `n_components` gets the documented defaults ("PSplines", 5) — whatever the
    expansions of the OTHER components say: the fit equals the fit with the defaults spelled out."""
    n = 14
    latent = np.round(rng.normal(size=(n, 3)) * np.array([2.0, 1.0, 0.5]) * 8) / 8
    comps = [component(rng, n, k, sc, latent)[0] for k, sc in (("uniform", 1.0), ("nonuniform", 3.0), ("shifted", 0.5))]
    data = fd.multivariate(comps)
    variants = [
        ([{"method": "UFPCA", "n_components": 2}, {"method": "UFPCA"}, {}],
         [{"method": "UFPCA", "n_components": 2}, {"method": "UFPCA", "n_components": 5}, {"method": "PSplines", "n_components": 5}]),
        ([{"method": "UFPCA", "n_components": 3}, {"n_segments": 4}, {"method": "UFPCA"}],
         [{"method": "UFPCA", "n_components": 3}, {"method": "PSplines", "n_components": 5, "n_segments": 4},
          {"method": "UFPCA", "n_components": 5}]),
    ]
    for short, explicit in variants:
        rep.case(("expansion-defaults", repr(short)), nontrivial=True, kind="expansion-defaults", sample={"expansions": short})
        try:
            fa = fit_mfpca(data, short, 3, False)
            fb = fit_mfpca(data, explicit, 3, False)
            la, lb = np.asarray(fa.eigenvalues, float), np.asarray(fb.eigenvalues, float)
            def _vals(c):
                return np.asarray((c.to_grid() if not hasattr(c, "values") else c).values, float)
            ea = [_vals(c) for c in fa.eigenfunctions.data]
            eb = [_vals(c) for c in fb.eigenfunctions.data]
        except ModuleNotFoundError:
            return
        except Exception as e:  # noqa: BLE001
            rep.violation(f"MFPCA.fit with partially specified expansions raised {type(e).__name__}: {e}"[:300],
                          {"expansions": short, "values": [C.hexf(c.values) for c in comps]})
            continue
        same = la.shape == lb.shape and np.allclose(la, lb, rtol=1e-9, atol=1e-12) and all(
            x.shape == y.shape and np.allclose(np.abs(x), np.abs(y), rtol=1e-7, atol=1e-9) for x, y in zip(ea, eb))
        if not same:
            rep.violation("MFPCA: a component whose expansion omits `method` / `n_components` does not get the documented defaults "
                          "(the fit differs from the fit with the defaults spelled out): a component's expansion depends on the others'",
                          {"expansions": short, "explicit": explicit, "eigenvalues_short": la.tolist(), "eigenvalues_explicit": lb.tolist(),
                           "values": [C.hexf(c.values) for c in comps]})


def unit_monitor(rep, rng):
    """The same multivariate curves in small / large units (times a power of two: exact): the eigenproblem of (block-diagonal
    Gram) x (score covariance) is homogeneous, so eigenvalues scale with the square of the factor and eigenfunctions do not change."""
    n = 12
    latent = np.round(rng.normal(size=(n, 3)) * np.array([2.0, 1.0, 0.5]) * 8) / 8
    parts = [component(rng, n, k, sc, latent) for k, sc in (("uniform", 1.0), ("nonuniform", 3.0))]
    # (P-spline expansions only: with UFPCA expansions the univariate scores are PACE scores, regularised by the ABSOLUTE,
    #  user-settable `tol` = 1e-4 — a documented parameter, so nothing is promised about units there)
    for exp_kind, expansions in (("PSplines", [{"method": "PSplines", "n_segments": 3, "degree": 2, "penalty": 1.0}] * 2),):
        def vals(f):
            return [np.asarray((c.to_grid() if not hasattr(c, "values") else c).values, float) for c in f.eigenfunctions.data]
        try:
            f0 = fit_mfpca(fd.multivariate([fd.dense(x, np.asarray(d.values)) for d, x in parts]), expansions, 3, False)
            l0, e0 = np.asarray(f0.eigenvalues, float), vals(f0)
        except ModuleNotFoundError:
            continue
        except Exception as e:  # noqa: BLE001
            rep.notes.append(f"unit monitor: reference MFPCA fit raised {type(e).__name__}"[:120])
            continue
        for ex in (-20, 16):
            c = 2.0 ** ex
            rep.case(("units", exp_kind, ex), kind=f"units/{exp_kind}")
            try:
                f1 = fit_mfpca(fd.multivariate([fd.dense(x, np.asarray(d.values) * c) for d, x in parts]), expansions, 3, False)
                l1, e1 = np.asarray(f1.eigenvalues, float), vals(f1)
            except ModuleNotFoundError:
                continue
            except Exception as e:  # noqa: BLE001
                rep.violation(f"MFPCA.fit ({exp_kind} expansions) raised {type(e).__name__}: {e} on the same curves times 2^{ex}"[:300],
                              {"expansions": expansions, "factor_exponent": ex, "values": [C.hexf(np.asarray(d.values)) for d, _ in parts]})
                continue
            ok = l1.shape == l0.shape and np.max(np.abs(l1 - c * c * l0)) <= 1e-6 * c * c * float(np.max(np.abs(l0))) and all(
                a.shape == b.shape and np.all(np.isfinite(a)) and np.max(np.abs(np.abs(a) - np.abs(b))) <= 1e-5 * max(1.0, float(np.max(np.abs(b))))
                for a, b in zip(e1, e0))
            if not ok:
                rep.violation(f"MFPCA ({exp_kind} expansions) on the same curves times 2^{ex}: eigenvalues {l1.tolist()} are not 2^{2 * ex} times "
                              f"{l0.tolist()}, or the eigenfunctions change with the unit of the curves",
                              {"expansions": expansions, "factor_exponent": ex, "values": [C.hexf(np.asarray(d.values)) for d, _ in parts]})


def mixed_expansions(rep, rng):
    """Components expanded by DIFFERENT methods in one fit (UFPCA for one, P-splines for another, either order): the
    eigenfunctions are orthonormal for the sum over components of the L2 inner products all the same."""
    n = 16
    latent = np.round(rng.normal(size=(n, 3)) * np.array([2.0, 1.0, 0.5]) * 8) / 8
    parts = [component(rng, n, k, sc, latent) for k, sc in (("uniform", 1.0), ("nonuniform", 2.0), ("shifted", 0.5))]
    U, PS = {"method": "UFPCA", "n_components": 3}, {"method": "PSplines", "n_segments": 3, "degree": 2, "penalty": 1.0}
    for expansions, idx in (([U, PS], (0, 1)), ([PS, U], (0, 1)), ([U, PS, U], (0, 1, 2))):
        data = fd.multivariate([parts[j][0] for j in idx])
        rep.case(("mixed-expansions", repr([e["method"] for e in expansions])), nontrivial=True, kind="mixed-expansions")
        try:
            f = fit_mfpca(data, expansions, 3, False)
            E = [np.asarray(c.values, float) for c in f.eigenfunctions.to_grid().data]
            S = np.asarray(f._scores_univariate, float)
        except ModuleNotFoundError:
            continue
        except Exception as e:  # noqa: BLE001
            rep.violation(f"MFPCA.fit with mixed univariate expansions raised {type(e).__name__}: {e}"[:300],
                          {"expansions": expansions, "values": [C.hexf(np.asarray(parts[j][0].values)) for j in idx]})
            continue
        # scores not exactly centred (PACE scores of the UFPCA expansions): the open finding F16 perturbs orthonormality at the
        # 1e-7..1e-4 level there (decided in the main run) — a coarse threshold still separates a dropped Gram block (> 0.3)
        centred = float(np.max(np.abs(S.mean(axis=0)))) <= 1e-8 * max(1.0, float(np.max(np.abs(S))))
        K = len(E[0])
        G = sum(np.array([[np.trapz(E[p][j] * E[p][k], parts[idx[p]][1]) for k in range(K)] for j in range(K)]) for p in range(len(E)))
        if not np.all(np.isfinite(G)) or np.max(np.abs(G - np.eye(K))) > (1e-5 if centred else 0.05):
            rep.violation(f"MFPCA with mixed univariate expansions {[e['method'] for e in expansions]}: the eigenfunctions are not orthonormal for "
                          f"the sum over components of the L2 inner products (Gram matrix deviates from the identity by "
                          f"{np.max(np.abs(G - np.eye(K))):.3g})",
                          {"expansions": expansions, "gram": G.tolist(), "values": [C.hexf(np.asarray(parts[j][0].values)) for j in idx]})


def irregular_wellformed(rep, rng):
    n, m = 10, 15
    x = np.linspace(0, 1, m)
    X = fd.smooth_curves(rng, n, x) + 0.05 * rng.normal(size=(n, m))
    mask = rng.uniform(size=(n, m)) < 0.85
    mask[:, [0, -1]] = True
    mask[0, [2, 5, 9]] = False                # the FIRST curve misses grid points the others have
    irr = fd.irregular([x[mask[k]] for k in range(n)], [X[k][mask[k]] for k in range(n)])
    d = fd.dense(np.linspace(-1, 1, 12), fd.smooth_curves(rng, n, np.linspace(-1, 1, 12)))
    rep.case(("irregular-wellformed", X.tobytes()), kind="irregular-component/well-formedness")
    try:
        for meth in ("LP", "PS"):
            f = fit_mfpca(fd.multivariate([d, irr]), [{"method": "UFPCA", "n_components": 2},
                                                      {"method": "UFPCA", "n_components": 2, "method_smoothing": meth}],
                          2, False, method_smoothing=meth)
            ok = np.all(np.isfinite(f.eigenvalues)) and len(f.eigenvalues) == 2 and f.eigenfunctions.n_functional == 2
            with warnings.catch_warnings():
                warnings.simplefilter("ignore")
                sc = np.asarray(f.transform(None, method="PACE"), float)
                rec = f.inverse_transform(sc)
            ok = ok and sc.shape == (n, 2) and np.all(np.isfinite(sc)) and rec.n_functional == 2 and rec.n_obs == n
            union = np.unique(np.concatenate([x[mask[k]] for k in range(n)]))
            rg = np.asarray(rec.data[1].argvals["input_dim_0"], float)
            ok = ok and rg.shape == union.shape and np.array_equal(rg, union)
            if not ok:
                rep.violation(f"MFPCA with an irregular component (method_smoothing={meth}): malformed result",
                              {"X": C.hexf(X), "mask": mask.astype(int).tolist()})
    except ModuleNotFoundError as e:
        rep.notes.append(f"irregular well-formedness skipped (environment): {e}")
    except Exception as e:  # noqa: BLE001
        rep.violation(f"MFPCA with an irregular component (per-curve sampling points, first curve incomplete): fit / PACE scores / "
                      f"inverse_transform raised {type(e).__name__}: {e}"[:300], {"X": C.hexf(X), "mask": mask.astype(int).tolist()})
