"""C17 — FCP-TPA terminates and is a greedy rank-one deflation.

(i)  adversarial loop test: `_update_components` is replaced by an oracle that returns
     vectors with a prescribed relative change per iteration (never converging /
     converging at a chosen iteration / converging only at a relaxed tolerance).  The
     while-test of `fit` itself is left untouched.  The observed numbers of updates and
     forced exits per component are compared EXACTLY with the Coq loop model fed with
     the table "smallest tolerance level at which iteration i reports convergence",
     and with the bound 2*max_iteration+1.
(ii) real runs: `_update_components` is wrapped (counting, recording its arguments and
     results).  Loop counts vs the model (oracle table computed from the recorded
     vectors), unit-norm rank-one components, projection coefficients, deflation,
     energy identity with the algorithm's own scores, monotone error, the normalize
     option, reproducibility; small cases also against the exact Q model.
"""
from __future__ import annotations

import bisect
import math
import warnings

import numpy as np

from harness import common as C
from harness import fd

IMPORTS = "From FDAV Require Import Base.Num Base.Vec Base.Quad Base.Cmp Model.Fcptpa Tie.C17."

RULE = ("adversarial: exhaustive max_iteration 1..30 x adapt_tolerance x convergence iteration (1..2max+2, never) x "
        "n_components 1..3 (+ random level-dependent oracles), numbers of updates and forced exits per component compared "
        "exactly with fit_loop/component_loop and with 2*max+1; real runs: 3-way arrays n x m1 x m2 (random, low-rank, "
        "constant, zero-containing, spikes, all-zero), n_components 1..5, tolerance 1e-8..1e-1, max_iteration 1..30, "
        "alpha ranges within 1e-6..1e6, both normalize settings, np.random.seed fixed: loop counts vs model, unit rank-one "
        "components, coefficient = projection of the residual, deflation, energy identity from transform(data,'FCPTPA'), "
        "monotone prefix errors, normalize keeps inverse_transform and gives unit L2 eigenimages, bitwise reproducibility; "
        "small cases against the exact Q model (fit_tie). Non-trivial = at least one update happened; distinct by inputs.")
ASSUME = ["exact-arithmetic model; comparison tolerance 1e-9*scale (energy: 1e-9*||X||^2)",
          "the update step and the GCV line search are oracles: their results are recorded from the implementation",
          "relative changes within 1e-6 of a tolerance threshold are skipped as ambiguous for the exact count comparison",
          "tolerance > 0 (for a negative tolerance the forced exit `0 > tolerance` would not stop the loop)"]

FID = "F-C17-zero"
F_WHAT = ("FCPTPA.fit on an exactly zero residual (all-zero data, or data removed exactly by the previous components, e.g. "
          "np.ones((4,4,4)) with n_components=2, alpha_range (1e-6,1e-2)) divides 0/0 in _update_vector: that component and "
          "all later ones, the scores and the reconstruction are NaN")

FID2 = "F-C17-zero-update"
F2_WHAT = ("FCPTPA.fit: an update of u returns EXACTLY the zero vector although the residual is not zero (its projection on the "
           "current v (x) w vanishes exactly in floating point: seen for a single-spike array and for a constant array with "
           "smoothing ranges up to 1e6, n_components=5, max_iteration=2), and the following update divides 0/0: that component "
           "and all later ones are NaN")

NEVER = 1000
RAW_LIMIT = 40
MAXLEVEL = 45


# ----------------------------------------------------------------------------------
# helpers
# ----------------------------------------------------------------------------------
def thresholds(tol):
    """tolerance after L multiplications by 10, computed as the code does."""
    out = [float(tol)]
    for _ in range(MAXLEVEL):
        out.append(10 * out[-1])
    return out


def minlevel(r, thr, max_l):
    """smallest level L with not (r > thr[L]); NaN compares False, i.e. converged at level 0.
    Ambiguity (r within 1e-6 of a threshold) only matters for levels the loop can have reached
    after that many updates (L <= max_l)."""
    if r != r:
        return 0, False
    if r == float("inf"):
        return NEVER, False
    L = bisect.bisect_left(thr, r)          # first L with thr[L] >= r, i.e. not (r > thr[L])
    amb = False
    if r != 0:
        for j in (L - 1, L):
            if 0 <= j <= max_l and j < len(thr) and abs(r - thr[j]) <= 1e-6 * thr[j]:
                amb = True
    return (L if L < len(thr) else NEVER), amb


def _norm(a):
    return math.sqrt(float(np.dot(a, a)))


def any_test_levels(new, old, thr, max_l):
    """the while-test is any(r_l > tol): converged iff every r_l fails `>`; NaN fails it.
    Returns (smallest level at which the test reports convergence, ambiguous?)."""
    lv, amb = 0, False
    for a, b in zip(new, old):
        with np.errstate(all="ignore"):     # x/0 = inf, 0/0 = nan, exactly as in the code's test
            r = float(np.float64(_norm(a - b)) / np.float64(_norm(a)))
        l1, a1 = minlevel(r, thr, max_l)
        lv = max(lv, l1)
        amb = amb or a1
    return lv, amb


def tbl_term(tbl):
    return "[" + "; ".join("[" + "; ".join("never" if e >= NEVER else str(int(e)) for e in row) + "]" for row in tbl) + "]%nat"


def nat_term(xs):
    return "[" + "; ".join(str(int(x)) for x in xs) + "]%nat"


def pen(m):
    d = np.diff(np.identity(m))
    return d @ d.T


def py_counts(tbl, maxit, adapt, ncomp):
    """Diagnostic mirror of the Coq loop model (used ONLY to point at the failing case of a
    batch in the replay file; the judge is the Coq term)."""
    out, forced_all = [], []
    for k in range(ncomp):
        row = tbl[k] if k < len(tbl) else []
        n, level, forced = 0, 0, False
        while not forced and not ((row[n] if n < len(row) else NEVER) <= level):
            n += 1
            if n > maxit:
                if adapt and n < 2 * maxit:
                    level += 1
                else:
                    forced = True
        out.append(n)
        forced_all.append(forced)
    return out, forced_all


# ----------------------------------------------------------------------------------
# (i) adversarial oracles
# ----------------------------------------------------------------------------------
class Runaway(Exception):
    pass


class AdvOracle:
    """Replacement of _update_components: iteration i of component k changes the vectors by
    the relative amount plans[k][i-1] (0 = returns them unchanged)."""

    def __init__(self, plans, cap):
        self.plans, self.cap = plans, cap
        self.last, self.k, self.i = None, -1, 0
        self.counts, self.pairs = [], []

    def __call__(self, data, vectors, penalty_matrices, alphas, alpha_range, eigens):
        if data is not self.last:
            self.last, self.k, self.i = data, self.k + 1, 0
            self.counts.append(0)
            self.pairs.append([(tuple(np.zeros_like(v) for v in vectors), vectors)])
        self.i += 1
        self.counts[-1] += 1
        if self.i > self.cap:
            raise Runaway(f"component {self.k}: more than {self.cap} updates")
        plan = self.plans[self.k] if self.k < len(self.plans) else []
        r = plan[self.i - 1] if self.i - 1 < len(plan) else (plan[-1] if plan else 1.0)
        new = [np.array(v, dtype=float) for v in vectors]
        if r > 0:
            j = self.i % 3
            new[j] = vectors[j] * (1.0 / (1.0 + r) if r >= 0.5 else 1.0 / (1.0 - r))
            for l in range(3):
                if l != j:
                    # idle vectors are regrown by a power of ten (relative change 0.9, 0.99, ... — never
                    # near a threshold tol*10^L) when that cannot alter the outcome of the any()-test
                    nl = float(np.linalg.norm(vectors[l]))
                    k = int(min(5, np.floor(-np.log10(nl)))) if 0 < nl < 0.1 else 0
                    if k >= 1 and (1.0 - 10.0 ** -k) <= 0.5 * r:
                        new[l] = vectors[l] * 10.0 ** k
        new = tuple(new)
        self.pairs[-1].append((vectors, new))
        return new, alphas


def level_at(i, maxit, adapt):
    """tolerance level at the test after i updates (deterministic in the real code; used only to
    DESIGN adversarial inputs, never to judge)."""
    if not adapt or i <= maxit:
        return 0
    return min(i, 2 * maxit - 1) - maxit


def plan_at(c, maxit, adapt, thr, exact_zero):
    """not converged (just above the current threshold) before iteration c, converged at c."""
    n = 2 * maxit + 3
    plan = [3.0 * thr[level_at(i, maxit, adapt)] for i in range(1, n + 1)]
    if c is not None and c <= n:
        plan[c - 1] = 0.0 if exact_zero else thr[level_at(c, maxit, adapt)] / 3.0
    return plan


def plan_random(rng, maxit, tol):
    n = 2 * maxit + 3
    q = rng.integers(-1, maxit + 2, size=n)
    plan = [3.0 * tol * 10.0 ** int(x) for x in q]
    for i in range(n):
        if rng.uniform() < 0.08:
            plan[i] = 0.0
    return plan


def run_adv(F, data, maxit, adapt, ncomp, tol, plans):
    orc = AdvOracle(plans, cap=4 * maxit + 12)
    orig = F._update_components
    F._update_components = orc
    err = None
    forced = [False] * ncomp
    try:
        with warnings.catch_warnings(record=True) as ws:
            warnings.simplefilter("always")
            np.random.seed(12345)
            est = F.FCPTPA(n_components=ncomp)
            m1, m2 = data.values.shape[1:]
            est.fit(data, {"v": np.identity(m1), "w": np.identity(m2)}, {"v": (1e-2, 1e2), "w": (1e-2, 1e2)},
                    tolerance=tol, max_iteration=maxit, adapt_tolerance=adapt)
        for w in ws:
            msg = str(w.message)
            if "did not converge" in msg:
                try:
                    forced[int(msg.split("component")[1].split()[0])] = True
                except Exception:  # noqa: BLE001
                    pass
    except Runaway as e:
        err = str(e)
    finally:
        F._update_components = orig
    thr = thresholds(tol)
    tbl = []
    for pairs in orc.pairs:
        row = []
        for i, (old, new) in enumerate(pairs):
            lv, amb = any_test_levels(new, old, thr, i)
            assert not amb, "adversarial oracle produced an ambiguous relative change"
            row.append(lv)
        tbl.append(row)
    counts = list(orc.counts) + [0] * (ncomp - len(orc.counts))
    while len(tbl) < ncomp:
        tbl.append([0])
    return counts, forced, tbl, err


def adversarial(rep, rng, quick):
    from FDApy.preprocessing.dim_reduction import fcp_tpa as F
    data = fd.dense([np.arange(3.0), np.arange(3.0)], fd.dyadic_matrix(rng, 2, 9).reshape(2, 3, 3))
    run = C.CoqRun("C17", IMPORTS, shard=8)
    batches = []
    tols = [1e-8, 1e-4, 1e-1]
    n_adv = 0
    for maxit in range(1, 31):
        for adapt in (False, True):
            cases = []
            for ncomp in (1, 2, 3):
                cs = list(range(1, 2 * maxit + 3)) + [None]
                for ci, c in enumerate(cs):
                    tol = tols[(maxit + ci + ncomp) % 3]
                    thr = thresholds(tol)
                    plans = []
                    for k in range(ncomp):
                        if k == ncomp - 1:
                            plans.append(plan_at(c, maxit, adapt, thr, exact_zero=(ci % 2 == 0)))
                        else:
                            # earlier components: rotate never / early / at max / random
                            sel = (ci + k) % 4
                            if sel == 0:
                                plans.append(plan_at(None, maxit, adapt, thr, False))
                            elif sel == 1:
                                plans.append(plan_at(1 + (ci % (2 * maxit + 2)), maxit, adapt, thr, True))
                            elif sel == 2:
                                plans.append(plan_at(maxit + 1, maxit, adapt, thr, False))
                            else:
                                plans.append(plan_random(rng, maxit, tol))
                    cases.append((ncomp, tol, plans, f"at-{c}" if c else "never"))
            for j in range(4 if quick else 30):
                ncomp = int(rng.integers(1, 4))
                tol = tols[j % 3]
                cases.append((ncomp, tol, [plan_random(rng, maxit, tol) for _ in range(ncomp)], "random"))
            rows = []
            for ncomp, tol, plans, kind in cases:
                counts, forced, tbl, err = run_adv(F, data, maxit, adapt, ncomp, tol, plans)
                n_adv += 1
                rep.case(("adv", maxit, adapt, ncomp, tol, kind, repr(tbl)), nontrivial=True, kind=f"adversarial/{kind if kind in ('never', 'random') else 'at-c'}",
                         sample={"kind": "adversarial", "max_iteration": maxit, "adapt_tolerance": adapt, "n_components": ncomp,
                                 "tolerance": tol, "oracle": kind, "updates": counts, "forced": forced})
                info = {"kind": "adversarial", "max_iteration": maxit, "adapt_tolerance": adapt, "n_components": ncomp,
                        "tolerance": tol, "oracle": kind, "plans": [[float(x).hex() for x in p] for p in plans],
                        "observed_updates": counts, "observed_forced": forced, "table": tbl}
                if err:
                    rep.violation(f"loop did not stop: {err} (bound is {2 * maxit + 1})", info)
                    continue
                if max(counts) > 2 * maxit + 1:
                    rep.violation(f"{max(counts)} updates in one component exceed 2*max_iteration+1 = {2 * maxit + 1}", info)
                rows.append((tbl, ncomp, counts, forced, info))
            term = (f"all_counts_ok {maxit}%nat {C.blit(adapt)} [" +
                    "; ".join(f"({tbl_term(t)}, {n}%nat, {nat_term(c)}, [{'; '.join(C.blit(b) for b in f)}])" for t, n, c, f, _ in rows) + "]")
            batches.append((run.add(term), maxit, adapt, rows))
    res = run.run()
    for t, maxit, adapt, rows in batches:
        if res[t]:
            continue
        rep.disagreements_checked += 1
        found = False
        for tbl, ncomp, counts, forced, info in rows:
            mc, mf = py_counts(tbl, maxit, adapt, ncomp)
            if mc != counts or mf != forced:
                found = True
                rep.violation(f"number of updates / forced exits per component {counts}/{forced} differ from the loop model "
                              f"{mc}/{mf} (max_iteration={maxit}, adapt_tolerance={adapt})",
                              {**info, "model_updates": mc, "model_forced": mf})
        if not found:
            rep.violation("Coq loop model rejects a batch although the diagnostic mirror agrees (model/harness inconsistency)",
                          {"max_iteration": maxit, "adapt_tolerance": adapt}, no_input=True)
    rep.extra["adversarial_fits"] = n_adv


# ----------------------------------------------------------------------------------
# (ii) real runs
# ----------------------------------------------------------------------------------
class Recorder:
    def __init__(self, orig):
        self.orig = orig
        self.last = None
        self.comps = []   # per component: dict(data=..., calls=[(vin, vout)])

    def __call__(self, data, vectors, *a, **k):
        if data is not self.last:
            self.last = data
            self.comps.append({"data": data, "calls": []})
        out = self.orig(data, vectors, *a, **k)
        self.comps[-1]["calls"].append((vectors, out[0]))
        if len(self.comps[-1]["calls"]) > 500:
            raise Runaway("more than 500 updates in one component")
        return out


def fit_once(F, X, x1, x2, p, normalize, record=True):
    d = fd.dense([x1, x2], X)
    est = F.FCPTPA(n_components=p["K"], normalize=normalize)
    rec = Recorder(F._update_components)
    orig = F._update_components
    if record:
        F._update_components = rec
    try:
        with warnings.catch_warnings(record=True) as ws:
            warnings.simplefilter("always")
            np.random.seed(p["seed"])
            est.fit(d, {"v": pen(X.shape[1]), "w": pen(X.shape[2])}, {"v": p["alpha_v"], "w": p["alpha_w"]},
                    tolerance=p["tol"], max_iteration=p["maxit"], adapt_tolerance=p["adapt"])
        forced = [False] * p["K"]
        for w in ws:
            msg = str(w.message)
            if "did not converge" in msg:
                forced[int(msg.split("component")[1].split()[0])] = True
    finally:
        F._update_components = orig
    return est, d, rec, forced


def gen_data(rng, kind, n, m1, m2):
    if kind == "random":
        return fd.dyadic_matrix(rng, n, m1 * m2, bits=5).reshape(n, m1, m2)
    if kind == "lowrank":
        r = int(rng.integers(1, 4))
        X = sum(np.einsum("i,j,k->ijk", fd.dyadic_matrix(rng, 1, n)[0], np.sin((j + 1) * np.linspace(0, 2, m1)),
                          np.cos((j + 1) * np.linspace(0, 1.5, m2))) for j in range(r))
        return X + (0.0 if rng.uniform() < 0.5 else 0.05 * rng.normal(size=X.shape))
    if kind == "smooth":
        a, b = np.linspace(0, 1, m1), np.linspace(0, 1, m2)
        B = [np.outer(np.sin((i + 1) * np.pi * a), np.sin((j + 1) * np.pi * b)) for i in range(2) for j in range(2)]
        return np.einsum("nk,kij->nij", rng.normal(size=(n, 4)) * [3, 2, 1, 0.5], np.array(B)) + 0.02 * rng.normal(size=(n, m1, m2))
    if kind == "constant":
        return np.full((n, m1, m2), float(rng.choice([1.0, 2.5, -3.0, 0.125])))
    if kind == "zero-containing":
        X = fd.dyadic_matrix(rng, n, m1 * m2, bits=5).reshape(n, m1, m2)
        X[rng.uniform(size=X.shape) < 0.5] = 0.0
        X[int(rng.integers(n))] = 0.0                    # one all-zero observation
        X[:, int(rng.integers(m1)), :] = 0.0             # one all-zero image row
        return X
    if kind == "spike":
        X = np.zeros((n, m1, m2))
        for _ in range(int(rng.integers(1, 3))):
            X[int(rng.integers(n)), int(rng.integers(m1)), int(rng.integers(m2))] = float(rng.choice([3.0, -1.5]))
        return X
    if kind == "all-zero":
        return np.zeros((n, m1, m2))
    raise ValueError(kind)


KINDS = ["random", "lowrank", "smooth", "constant", "zero-containing", "spike", "random", "lowrank", "smooth", "all-zero"]
ALPHAS = [(1e-6, 1e-2), (1e-2, 1e2), (1e2, 1e6), (1e-6, 1e6), (1e-3, 1e3)]


def gen_cases(rng, quick):
    cases = []
    # corpus: inputs on which the unrepaired tree produces NaN (exactly zero residual)
    cases.append(("corpus-ones444", np.ones((4, 4, 4)), dict(K=2, tol=1e-4, maxit=15, adapt=True, alpha_v=(1e-6, 1e-2),
                                                             alpha_w=(1e-6, 1e-2), seed=1)))
    cases.append(("corpus-zero", np.zeros((3, 4, 5)), dict(K=2, tol=1e-4, maxit=15, adapt=True, alpha_v=(1e-2, 1e2),
                                                          alpha_w=(1e-2, 1e2), seed=1)))
    n_cases = 80 if quick else 900
    for i in range(n_cases):
        kind = KINDS[i % len(KINDS)]
        small = (i % 3 == 0)
        hi_n, hi_m = (5, 5) if small else (16, 16)
        n, m1, m2 = int(rng.integers(2, hi_n)), int(rng.integers(3, hi_m)), int(rng.integers(3, hi_m))
        X = gen_data(rng, kind, n, m1, m2)
        p = dict(K=int(rng.integers(1, 4 if small else 6)), tol=float(10.0 ** rng.uniform(-8, -1)),
                 maxit=int(rng.choice([1, 2, 3, 5, 8, 15, 30])) if i % 2 else int(rng.integers(1, 31)),
                 adapt=bool(i % 4 < 2), alpha_v=ALPHAS[int(rng.integers(len(ALPHAS)))],
                 alpha_w=ALPHAS[int(rng.integers(len(ALPHAS)))], seed=int(rng.integers(1, 10 ** 6)))
        cases.append((kind, X, p))
    return cases


def grids(rng_i, m1, m2):
    x1 = np.linspace(0, 1, m1) if rng_i % 2 == 0 else np.cumsum(1 + (np.arange(m1) % 3)) / 4.0
    x2 = np.linspace(0, 2, m2) if rng_i % 3 else np.arange(m2) / 8.0
    return x1, x2


def check_real(rep, run, todo, F, idx, kind, X, p):
    n, m1, m2 = X.shape
    x1, x2 = grids(idx, m1, m2)
    info = {"kind": "real", "data_kind": kind, "shape": list(X.shape), "params": {k: (list(v) if isinstance(v, tuple) else v) for k, v in p.items()},
            "x1": C.hexf(x1), "x2": C.hexf(x2), "X": C.hexf(X)}
    K = p["K"]
    try:
        est, d, rec, forced = fit_once(F, X, x1, x2, p, False)
    except Runaway as e:
        rep.case(("real", X.tobytes(), repr(p)), kind=f"real/{kind}")
        rep.violation(f"fit did not terminate: {e}", info)
        return
    comps = rec.comps
    if len(comps) < K and all(np.isfinite(np.asarray(c["calls"][-1][1][0], float)).all() for c in comps if c["calls"]):
        # every requested component is extracted by at least one update of its own residual; fewer recorded components with
        # finite vectors means the deflation stopped early and the remaining "components" were never computed
        rep.case(("real", X.tobytes(), repr(p)), kind=f"real/{kind}")
        imgs0 = np.array(est.eigenfunctions.values, dtype=float)
        norms = [float(np.sqrt(np.sum(imgs0[k] ** 2))) for k in range(imgs0.shape[0])]
        rep.violation(f"only {len(comps)} of the {K} requested components were extracted (Frobenius norms of the reported eigenimages "
                      f"{[round(v, 6) for v in norms]}): the others are not unit-norm rank-one tensors", info)
        return
    counts = [len(c["calls"]) for c in comps] + [0] * (K - len(comps))
    S = np.array(est.transform(d, method="FCPTPA"), dtype=float)
    imgs = np.array(est.eigenfunctions.values, dtype=float)
    R = np.array(est.inverse_transform(S).values, dtype=float)
    rep.case(("real", X.tobytes(), repr(p)), nontrivial=sum(counts) > 0, kind=f"real/{kind}",
             sample={"kind": "real", "data": kind, "shape": list(X.shape), **{k: str(v) for k, v in p.items()}, "updates": counts})
    bad = []
    # ---- termination bound and loop model
    if max(counts) > 2 * p["maxit"] + 1:
        bad.append(f"{max(counts)} updates in one component > 2*max_iteration+1 = {2 * p['maxit'] + 1}")
    thr = thresholds(p["tol"])
    tbl, amb = [], False
    for c in comps:
        first_in = c["calls"][0][0]
        row = []
        lv, a = any_test_levels(first_in, tuple(np.zeros_like(v) for v in first_in), thr, 0)
        row.append(lv); amb |= a
        for i, (vin, vout) in enumerate(c["calls"]):
            lv, a = any_test_levels(vout, vin, thr, i + 1)
            row.append(lv); amb |= a
        tbl.append(row)
    while len(tbl) < K:
        tbl.append([0])       # components without any update: only possible when the vectors are NaN
    if amb:
        rep.dist["ambiguous-threshold"] = rep.dist.get("ambiguous-threshold", 0) + 1
    else:
        t = run.add(f"counts_ok {tbl_term(tbl)} {p['maxit']}%nat {C.blit(p['adapt'])} {K}%nat {nat_term(counts)} "
                    f"[{'; '.join(C.blit(b) for b in forced)}]")
        todo.append((t, "loop", {**info, "observed_updates": counts, "observed_forced": forced, "table": tbl,
                                 "model(diagnostic)": py_counts(tbl, p["maxit"], p["adapt"], K)}))
    # ---- zero residual / non-finite results
    zero_at = next((k for k, c in enumerate(comps) if not np.any(c["data"])), None)
    finite = bool(np.isfinite(S).all() and np.isfinite(imgs).all() and np.isfinite(R).all())
    if not finite:
        first_bad = next(k for k in range(K) if not (np.isfinite(S[:, k]).all() and np.isfinite(imgs[k]).all()))
        if zero_at is not None and first_bad >= zero_at:
            rep.known_finding(FID, F_WHAT, {**info, "zero_residual_at_component": zero_at})
            K_ok = zero_at
        else:
            # second defect model (F-C17-zero-update): the residual is not zero, but in the first update of the first bad
            # component the new u is EXACTLY the zero vector (the projection of the residual on the current v (x) w
            # vanishes exactly in floating point) with finite inputs; the next normalisation divides 0/0
            zu = None
            if first_bad < len(comps) and comps[first_bad]["calls"]:
                for j, (vin, vout) in enumerate(comps[first_bad]["calls"]):
                    if not all(np.isfinite(np.asarray(v, float)).all() for v in vout):
                        if all(np.isfinite(np.asarray(v, float)).all() for v in vin) and not np.any(np.asarray(vout[0])):
                            zu = j
                        break
            if zu is not None:
                rep.known_finding(FID2, F2_WHAT, {**info, "component": first_bad, "update": zu})
                K_ok = first_bad
            else:
                rep.violation("non-finite scores/eigenimages although no residual was exactly zero and no update returned an "
                              "exactly zero vector", info)
                return
    else:
        K_ok = K
    # ---- per component: unit rank-one, coefficient = projection of the residual, deflation
    sc = max(1.0, float(np.max(np.abs(X))))
    nx2 = float(np.sum(X * X))
    etol = 1e-9 * max(nx2, 1e-300) + 1e-300
    cks = []
    for k in range(K_ok):
        Rk = comps[k]["data"]
        raw = comps[k]["calls"][-1][1]
        if any(float(np.linalg.norm(v)) == 0 for v in raw):
            bad.append(f"component {k}: the update step returned a zero vector")
            break
        u, v, w = (np.asarray(a, float) / np.linalg.norm(a) for a in raw)
        ck = float(np.einsum("ijk,i,j,k->", Rk, u, v, w))
        cks.append(ck)
        if abs(np.linalg.norm(imgs[k]) - 1) > 1e-9:
            bad.append(f"eigenimage {k} has Frobenius norm {np.linalg.norm(imgs[k])!r}, not 1")
        sv = np.linalg.svd(imgs[k], compute_uv=False)
        if len(sv) > 1 and sv[1] > 1e-9 * sv[0]:
            bad.append(f"eigenimage {k} is not rank one")
        if np.max(np.abs(imgs[k] - np.outer(v, w))) > 1e-9:
            bad.append(f"eigenimage {k} is not v(x)w of the normalised vectors returned by the update step")
        if np.max(np.abs(S[:, k] - ck * u)) > 1e-9 * max(sc, abs(ck)):
            bad.append(f"scores of component {k} are not <residual, u(x)v(x)w> * u with unit u")
        nxt = comps[k + 1]["data"] if k + 1 < len(comps) else None
        if nxt is not None:
            e = np.einsum("i,j,k->ijk", u, v, w)
            if np.max(np.abs(nxt - (Rk - ck * e))) > 1e-9 * sc:
                bad.append(f"residual after component {k} is not residual - coef * u(x)v(x)w")
            if abs(float(np.sum(nxt * nxt)) - (float(np.sum(Rk * Rk)) - ck * ck)) > etol:
                bad.append(f"energy removed by component {k} is not coef^2")
    if K_ok and not np.array_equal(comps[0]["data"], X):
        bad.append("the first component does not start from the data")
    # ---- energy identity with the algorithm's own scores; monotone error
    if K_ok == K and not bad:
        c2 = np.array([float(np.sum(S[:, k] ** 2) * np.sum(imgs[k] ** 2)) for k in range(K)])
        errs = [nx2]
        for j in range(1, K + 1):
            Rj = np.einsum("nk,kij->nij", S[:, :j], imgs[:j])
            errs.append(float(np.sum((X - Rj) ** 2)))
            if abs(errs[j] - (nx2 - c2[:j].sum())) > etol:
                bad.append(f"energy identity fails with {j} components: ||X-rec||^2={errs[j]!r}, ||X||^2-sum c^2={nx2 - c2[:j].sum()!r}")
            if errs[j] > errs[j - 1] + etol:
                bad.append(f"reconstruction error increases from {j - 1} to {j} components")
        if abs(float(np.sum((X - R) ** 2)) - errs[K]) > etol:
            bad.append("inverse_transform(transform(data,'FCPTPA')) is not the sum of score (x) eigenimage")
        info["errors"] = errs
    # ---- normalize option and reproducibility
    if K_ok == K and not bad:
        est2, d2, _, _ = fit_once(F, X, x1, x2, p, False, record=False)
        S2 = np.array(est2.transform(d2, method="FCPTPA"))
        if not (S2.tobytes() == S.tobytes() and np.array(est2.eigenfunctions.values).tobytes() == imgs.tobytes()
                and np.array(est2.eigenvalues).tobytes() == np.array(est.eigenvalues).tobytes()):
            bad.append("two fits under the same global seed differ")
        estn, dn, _, _ = fit_once(F, X, x1, x2, p, True, record=False)
        Sn = np.array(estn.transform(dn, method="FCPTPA"), dtype=float)
        imgn = np.array(estn.eigenfunctions.values, dtype=float)
        Rn = np.array(estn.inverse_transform(Sn).values, dtype=float)
        if not (np.isfinite(Sn).all() and np.isfinite(imgn).all()):
            bad.append("normalize=True gives non-finite results")
        else:
            if np.max(np.abs(Rn - R)) > 1e-9 * sc:
                bad.append(f"normalize=True changes the reconstruction by {np.max(np.abs(Rn - R))!r}")
            l2 = np.array([np.trapz(np.trapz(imgn[k] ** 2, x2, axis=1), x1) for k in range(K)])
            if np.max(np.abs(l2 - 1)) > 1e-9 or np.max(np.abs(estn.eigenfunctions.norm() - 1)) > 1e-9:
                bad.append(f"normalize=True: eigenimage L2 norms^2 {l2.tolist()} are not 1")
            ns = np.sqrt(np.array([np.trapz(np.trapz(imgs[k] ** 2, x2, axis=1), x1) for k in range(K)]))
            if np.max(np.abs(Sn - S * ns)) > 1e-9 * max(1.0, float(np.max(np.abs(S)))) * max(1.0, float(ns.max())):
                bad.append("normalize=True: scores are not the plain scores times the eigenimage norms")
            if np.max(np.abs(np.array(estn.eigenvalues) - np.var(Sn, axis=0))) > 1e-9 * max(1.0, float(np.max(np.var(Sn, axis=0)))):
                bad.append("normalize=True: eigenvalues are not the variances of the scores")
            # exact model on small cases
            # exact arithmetic on 53-bit inputs: the residual after K components has ~300*K-bit entries
            if X.size <= (64 if C.tier() == "quick" else 150) and K <= (2 if C.tier() == "quick" else 3):
                add_exact(run, todo, info, X, x1, x2, comps, S, imgs, R, Sn, imgn, Rn, ns, sc, nx2)
    for b in bad:
        rep.violation(b, {**info, "updates": counts, "monitors": bad})
        break


def add_exact(run, todo, info, X, x1, x2, comps, S, imgs, R, Sn, imgn, Rn, ns, sc, nx2):
    K = S.shape[1]
    cterms = []
    # tiny cases: the raw vectors of the update step and their norms (the model divides, exact
    # rationals with odd denominators are slow); otherwise the vectors are handed over already
    # divided by their norms (dyadic numbers, norm oracle 1)
    raw_mode = X.size <= RAW_LIMIT and K <= 1
    for k in range(K):
        u, v, w = comps[k]["calls"][-1][1]
        if raw_mode:
            cterms.append(f"mk_comp {C.qlist(u)} {C.qlist(v)} {C.qlist(w)} {C.qlit(np.linalg.norm(u))} "
                          f"{C.qlit(np.linalg.norm(v))} {C.qlit(np.linalg.norm(w))}")
        else:
            cterms.append(f"mk_comp {C.qlist(u / np.linalg.norm(u))} {C.qlist(v / np.linalg.norm(v))} "
                          f"{C.qlist(w / np.linalg.norm(w))} 1 1 1")
    comps_t = "[" + "; ".join(cterms) + "]"
    tol = 1e-9 * max(sc, float(np.max(np.abs(S)))) * max(1.0, float(ns.max()))
    etol = 1e-9 * max(nx2, 1e-30)
    err = float(np.sum((X - R) ** 2))
    t = run.add(f"fit_tie {C.qlit(tol)} {C.qlit(etol)} {X.size}%nat {C.qlist(X.ravel())} {comps_t} "
                f"{C.qmat(S.T)} {C.qmat(imgs.reshape(K, -1))} {C.qlist(R.ravel())} {C.qlit(err)}")
    todo.append((t, "exact-fit", info))
    t = run.add(f"fit_tie_normalized {C.qlit(tol)} {X.size}%nat {C.qlist(x1)} {C.qlist(x2)} {C.qlist(X.ravel())} {comps_t} "
                f"{C.qlist(ns)} {C.qmat(Sn.T)} {C.qmat(imgn.reshape(K, -1))} {C.qlist(Rn.ravel())}")
    todo.append((t, "exact-normalize", info))


def real_runs(rep, rng, quick):
    from FDApy.preprocessing.dim_reduction import fcp_tpa as F
    run = C.CoqRun("C17", IMPORTS, shard=2)
    todo = []
    for idx, (kind, X, p) in enumerate(gen_cases(rng, quick)):
        check_real(rep, run, todo, F, idx, kind, X, p)
    res = run.run()
    for t, what, info in todo:
        rep.case((what, info["X"].__repr__(), repr(info["params"])), kind=f"model/{what}")
        if not res[t]:
            rep.disagreements_checked += 1
            msg = {"loop": "numbers of updates / forced exits per component differ from the loop model fed with the observed convergence table",
                   "exact-fit": "scores / eigenimages / reconstruction / residual energy differ from the exact deflation model",
                   "exact-normalize": "normalize=True results differ from the exact model (scores*norm, images/norm, unit L2)"}[what]
            rep.violation(msg, {**info, "relation": what})


def integer_images(rep, rng):
    """Images stored with an integer dtype (counts, 8-bit pictures) give exactly what the same numbers give as floats:
    the residual after each component is a real-valued tensor whatever the storage type of the data."""
    from FDApy.preprocessing.dim_reduction import fcp_tpa as F
    for k in range(3):
        n, m1, m2 = 5 + k, 6, 5 + k
        Xi = rng.integers(0, 10, size=(n, m1, m2))
        Xi[rng.uniform(size=Xi.shape) < 0.3] = 0
        if k == 2:
            Xi = np.full((n, m1, m2), 3)
            Xi[0, 0, 0] = 5
        x1, x2 = np.linspace(0, 1, m1), np.linspace(0, 2, m2)
        out = []
        for X in (Xi, Xi.astype(float)):
            d = fd.dense_raw([x1, x2], X.copy())
            est = F.FCPTPA(n_components=3, normalize=False)
            with warnings.catch_warnings():
                warnings.simplefilter("ignore")
                np.random.seed(1234 + k)
                try:
                    est.fit(d, {"v": pen(m1), "w": pen(m2)}, {"v": (1e-3, 1e1), "w": (1e-3, 1e1)}, tolerance=1e-6, max_iteration=30)
                    out.append((np.asarray(est.eigenvalues, float), np.asarray(est.eigenfunctions.values, float)))
                except Exception as e:  # noqa: BLE001
                    out.append(e)
        rep.case(("integer-images", Xi.tobytes()), kind="dtype/integer-images")
        if isinstance(out[1], Exception):
            continue
        if isinstance(out[0], Exception):
            rep.violation(f"FCPTPA.fit raised {type(out[0]).__name__}: {out[0]} on integer-dtype images (the float version fits)"[:300],
                          {"X": Xi.tolist()})
            continue
        (li, ei), (lf, ef) = out
        sc = max(1.0, float(np.max(np.abs(lf))))
        if li.shape != lf.shape or ei.shape != ef.shape or not np.allclose(li, lf, rtol=1e-8, atol=1e-10 * sc) \
                or not np.allclose(ei, ef, rtol=1e-6, atol=1e-8 * max(1.0, float(np.max(np.abs(ef))))):
            rep.violation("FCPTPA: integer-dtype images give other components than the same numbers stored as floats (the coefficient "
                          "is no longer the projection of the real-valued residual) — eigenvalues "
                          f"{li.tolist()} vs {lf.tolist()}", {"X": Xi.tolist(), "seed": 1234 + k})


def unit_images(rep, rng):
    """The same images in small / large units (times a power of two, exact; same global seed): the same unit-norm components,
    eigenvalues times the square of the factor — the iteration and its stopping rule work on normalised vectors."""
    from FDApy.preprocessing.dim_reduction import fcp_tpa as F
    n, m1, m2 = 7, 6, 5
    X = gen_data(rng, "smooth", n, m1, m2)
    x1, x2 = np.linspace(0, 1, m1), np.linspace(0, 2, m2)
    out = {}
    for e in (0, -24, 20):
        est = F.FCPTPA(n_components=3, normalize=False)
        with warnings.catch_warnings():
            warnings.simplefilter("ignore")
            np.random.seed(4321)
            try:
                est.fit(fd.dense([x1, x2], X * 2.0 ** e), {"v": pen(m1), "w": pen(m2)}, {"v": (1e-3, 1e1), "w": (1e-3, 1e1)},
                        tolerance=1e-6, max_iteration=30)
                out[e] = (np.asarray(est.eigenvalues, float), np.asarray(est.eigenfunctions.values, float))
            except Exception as ex:  # noqa: BLE001
                out[e] = ex
    if isinstance(out[0], Exception):
        return
    l0, e0 = out[0]
    for e in (-24, 20):
        rep.case(("unit-images", e, X.tobytes()), kind="scale/units")
        if isinstance(out[e], Exception):
            rep.violation(f"FCPTPA.fit raised {type(out[e]).__name__}: {out[e]} on the same images times 2^{e}"[:300], {"X": C.hexf(X), "factor_exponent": e})
            continue
        l1, e1 = out[e]
        c = 2.0 ** e
        if l1.shape != l0.shape or np.max(np.abs(l1 - c * c * l0)) > 1e-6 * c * c * float(np.max(np.abs(l0))) or e1.shape != e0.shape \
                or not np.all(np.isfinite(e1)) or np.max(np.abs(e1 - e0)) > 1e-5 * max(1.0, float(np.max(np.abs(e0)))):
            rep.violation(f"FCPTPA on the same images times 2^{e} (same seed): eigenvalues {l1.tolist()} are not 2^{2 * e} times {l0.tolist()}, or "
                          f"other eigenimages: the components depend on the unit of the data", {"X": C.hexf(X), "factor_exponent": e})


def refit_other_penalties(rep, rng):
    """One estimator object fitted again with OTHER penalty matrices of the same size (first- then second-order differences,
    another scaling): under the same global seed the second fit is the fit a new object gives — nothing of an earlier fit
    (penalty eigendecompositions, smoothing parameters) survives on the object."""
    from FDApy.preprocessing.dim_reduction import fcp_tpa as F
    n, m1, m2 = 8, 9, 8
    X = gen_data(rng, "smooth", n, m1, m2) + 0.5 * rng.normal(size=(n, m1, m2))
    x1, x2 = np.linspace(0, 1, m1), np.linspace(0, 2, m2)

    def pen2(m):
        d = np.diff(np.identity(m), n=2)
        return d @ d.T
    pens = [{"v": pen(m1), "w": pen(m2)}, {"v": pen2(m1), "w": pen2(m2)}, {"v": 7.0 * pen(m1), "w": 0.25 * pen2(m2)}]
    ar = {"v": (1e-4, 1e4), "w": (1e-4, 1e4)}

    def fit(est, pm):
        with warnings.catch_warnings():
            warnings.simplefilter("ignore")
            np.random.seed(2468)
            est.fit(fd.dense([x1, x2], X.copy()), {k: v.copy() for k, v in pm.items()}, dict(ar), tolerance=1e-6, max_iteration=30)
        return np.asarray(est.eigenvalues, float).copy(), np.asarray(est.eigenfunctions.values, float).copy()
    try:
        used = F.FCPTPA(n_components=2, normalize=False)
        fit(used, pens[0])
        for j in (1, 2, 0):
            l_used, e_used = fit(used, pens[j])
            l_new, e_new = fit(F.FCPTPA(n_components=2, normalize=False), pens[j])
            rep.case(("refit-other-penalties", j, X.tobytes()), kind="history/refit-other-penalties")
            if l_used.shape != l_new.shape or e_used.shape != e_new.shape \
                    or np.max(np.abs(l_used - l_new)) > 1e-9 * max(1.0, float(np.max(np.abs(l_new)))) \
                    or np.max(np.abs(e_used - e_new)) > 1e-9 * max(1.0, float(np.max(np.abs(e_new)))):
                rep.violation(f"FCPTPA fitted again with other penalty matrices of the same size (set {j}) under the same global seed "
                              f"gives eigenvalues {l_used.tolist()}, a new object gives {l_new.tolist()} (eigenimages differ by "
                              f"{float(np.max(np.abs(e_used - e_new))) if e_used.shape == e_new.shape else float('nan'):.3g}): the "
                              "result depends on an earlier fit of the same object", {"X": C.hexf(X), "penalty_set": j, "seed": 2468})
    except Exception as e:  # noqa: BLE001
        rep.notes.append(f"refit-other-penalties monitor: {type(e).__name__}: {e}"[:200])


# ----------------------------------------------------------------------------------
def run(rep, props, replay=None):
    quick = C.tier() == "quick"
    rng = np.random.default_rng([C.seed(), 17])
    if replay is not None:
        return replay_case(rep, replay)
    adversarial(rep, rng, quick)
    real_runs(rep, rng, quick)
    integer_images(rep, rng)
    unit_images(rep, np.random.default_rng([C.seed(), 17, 5]))
    refit_other_penalties(rep, np.random.default_rng([C.seed(), 17, 9]))


def replay_case(rep, rp):
    from FDApy.preprocessing.dim_reduction import fcp_tpa as F
    if "example" in rp and isinstance(rp["example"], dict):      # replay file of an (unlisted) finding
        rp = rp["example"]
    if rp.get("kind") == "adversarial":
        data = fd.dense([np.arange(3.0), np.arange(3.0)], np.arange(18.0).reshape(2, 3, 3))
        plans = [[float.fromhex(x) for x in pl] for pl in rp["plans"]]
        counts, forced, tbl, err = run_adv(F, data, rp["max_iteration"], rp["adapt_tolerance"], rp["n_components"],
                                           rp["tolerance"], plans)
        run = C.CoqRun("C17", IMPORTS)
        t = run.add(f"counts_ok {tbl_term(tbl)} {rp['max_iteration']}%nat {C.blit(rp['adapt_tolerance'])} {rp['n_components']}%nat "
                    f"{nat_term(counts)} [{'; '.join(C.blit(b) for b in forced)}]")
        ok = run.run()[t] and not err
        print("replay adversarial: observed updates", counts, "forced", forced, "model agrees:", ok, err or "")
        rep.case(("replay",), sample={"replay": rp.get("what")})
        if not ok:
            rep.violation("replay: loop counts differ from the model", rp)
    elif rp.get("kind") == "real":
        X = C.unhex(rp["X"])
        p = dict(rp["params"])
        p["alpha_v"], p["alpha_w"] = tuple(p["alpha_v"]), tuple(p["alpha_w"])
        run = C.CoqRun("C17", IMPORTS)
        todo = []
        nb = len(rep.violations)
        # grids are re-derived from the stored hex values
        x1, x2 = C.unhex(rp["x1"]), C.unhex(rp["x2"])
        global grids
        old = grids
        grids = lambda i, a, b: (x1, x2)  # noqa: E731
        try:
            check_real(rep, run, todo, F, 0, rp.get("data_kind", "replay"), X, p)
        finally:
            grids = old
        res = run.run()
        for t, what, info in todo:
            if not res[t]:
                rep.violation(f"replay: {what} differs from the model", {**info, "relation": what})
        print("replay real: violations", len(rep.violations) - nb, "known findings", {k: v["count"] for k, v in rep.known.items()})
    else:
        print("nothing to replay for this file")
