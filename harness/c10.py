"""C10 — centering, normalising, standardising, rescaling achieve what they promise."""
from __future__ import annotations

import warnings

import numpy as np

from harness import common as C
from harness import fd

IMPORTS = "From FDAV Require Import Base.Num Base.Vec Base.Quad Base.Cmp Model.Stats Tie.C09."
RULE = ("dense datasets (n_obs 2..8 / 2..30, 3..10 / 3..30 points, offsets/scales, grid points where all curves coincide) on six grid "
        "kinds: center / normalize / standardize / rescale (default, use_argvals_stand, user weight) vs the exact Q model with the "
        "implementation's square roots as checked oracle values; monitors of the promised effects on dense, basis-expansion, "
        "irregular (complete and with missing samples, both encodings) and multivariate data. Non-trivial = non-constant data; "
        "distinct by input bytes and operation.")
ASSUME = ["exact-arithmetic model; np.sqrt / np.std results enter the model as oracle values whose squares are re-checked in Q",
          "irregular data: only the relation the property states (center subtracts the mean estimated with the same options) is checked"]


def run(rep, props, replay=None):
    quick = C.tier() == "quick"
    rng = np.random.default_rng([C.seed(), 10])
    runq = C.CoqRun("C10", IMPORTS)
    todo = []
    fd.dtype_monitor(rep, rng, {
        "center()": lambda d: d.center().values, "normalize()": lambda d: d.normalize().values,
        "standardize()": lambda d: d.standardize().values, "standardize(center=False)": lambda d: d.standardize(center=False).values,
        "rescale() values": lambda d: d.rescale()[0].values, "rescale() weight": lambda d: d.rescale()[1],
        "rescale(use_argvals_stand=True) weight": lambda d: d.rescale(use_argvals_stand=True)[1],
        "rescale(weights=4) values": lambda d: d.rescale(weights=4.0)[0].values}, "centering / normalising / standardising / rescaling")
    n_cases = 18 if quick else 240
    for i in range(n_cases):
        kind = fd.GRID_KINDS[i % len(fd.GRID_KINDS)]
        n = int(rng.integers(2, 9 if quick else 30))
        m = int(rng.integers(3, 11 if quick else 30))
        x = fd.grid(rng, m, kind)
        X = fd.dyadic_matrix(rng, n, m) * float(rng.choice([1.0, 8.0, 0.125])) + float(rng.choice([0.0, 16.0, -2.0]))
        zero_col = None
        if i % 3 == 0:
            zero_col = int(rng.integers(m))
            X[:, zero_col] = 0.75
        d = fd.dense(x, X)
        sc = max(1.0, float(np.max(np.abs(X))))
        tol = 1e-10 * sc
        qx, qX = C.qlist(x), C.qmat(X)
        # center
        cen = np.asarray(d.center().values)
        t = runq.add(f"mclose {C.qlit(tol)} (center opsQ {m}%nat {qX}) {C.qmat(cen)}")
        todo.append((t, "center", kind, X))
        mon = []
        if np.max(np.abs(cen.mean(axis=0))) > 1e-10 * sc:
            mon.append("pointwise mean of centred data is not zero")
        if np.max(np.abs(np.asarray(fd.dense(x, cen).center().values) - cen)) > 1e-10 * sc:
            mon.append("centering twice changes the data")
        # every operation returns curves on the SAME sampling points (with either setting of use_argvals_stand)
        for lab, res in (("center", d.center()), ("normalize", d.normalize() if np.all(d.norm() > 1e-8) else d),
                         ("standardize", d.standardize()), ("rescale", d.rescale()[0]),
                         ("rescale(use_argvals_stand=True)", d.rescale(use_argvals_stand=True)[0]),
                         ("rescale(weights=2)", d.rescale(weights=2.0)[0])):
            ra = np.asarray(res.argvals["input_dim_0"], float)
            if ra.shape != x.shape or not np.array_equal(ra, x):
                mon.append(f"{lab} returns curves on other sampling points ([{ra[0]:.4g} .. {ra[-1]:.4g}] instead of "
                           f"[{x[0]:.4g} .. {x[-1]:.4g}])")
        # history: centering is a function of the curves the object holds now, not of what was computed on it before
        from FDApy.representation.values import DenseValues
        if m >= 4:
            dh = fd.dense(x, X)
            try:
                import warnings as _w
                with _w.catch_warnings():
                    _w.simplefilter("ignore")
                    dh.mean(method_smoothing="LP", bandwidth=float(np.ptp(x)) * 0.6)
                    dh.center(method_smoothing="PS", n_segments=2, penalty=10.0)
            except Exception:  # noqa: BLE001
                pass
            c1 = np.asarray(dh.center().values)
            if np.max(np.abs(c1 - cen)) > 1e-12 * sc:
                mon.append(f"center() after a smoothed mean()/center() on the same object differs from center() of fresh data "
                           f"(pointwise mean of the result {np.max(np.abs(c1.mean(axis=0))):.3g})")
            Xn = np.round((X[::-1] * 0.5 + 2.0) * 64) / 64 + np.arange(m) * 0.25
            dh.values = DenseValues(Xn)
            c2 = np.asarray(dh.center().values)
            if np.max(np.abs(c2 - (Xn - Xn.mean(axis=0)))) > 1e-10 * sc:
                mon.append("center() after the curves were replaced through the values setter does not give zero pointwise mean")
            s2 = np.asarray(dh.standardize().values)
            sdn = np.std(Xn, axis=0)
            if np.all(np.isfinite(s2)) and np.max(np.abs(s2.var(axis=0)[sdn > 1e-9 * sc] - 1.0), initial=0) > 1e-8:
                mon.append("standardize() after the curves were replaced through the values setter does not give unit variance")
        # normalize
        nrm = d.norm()
        if np.all(nrm > 1e-8):
            nz = np.asarray(d.normalize().values)
            t = runq.add(f"roots_ok {C.qlit(1e-9 * sc * sc * max(1.0, np.ptp(x)))} {C.qlist(nrm)} (normsqs {qx} {qX}) && "
                         f"mclose {C.qlit(1e-10 * sc / min(1.0, float(nrm.min())))} (normalize opsQ {C.qlist(nrm)} {qX}) {C.qmat(nz)}")
            todo.append((t, "normalize", kind, X))
            if np.max(np.abs(fd.dense(x, nz).norm() - 1.0)) > 1e-9:
                mon.append("normalised observations do not have unit norm")
            for kw in ({"use_argvals_stand": True}, {"method_integration": "simpson"}) if m >= 3 else ({"use_argvals_stand": True},):
                if np.all(np.asarray(d.norm(**kw)) > 1e-8):
                    nk = np.asarray(d.normalize(**kw).norm(**kw), float)
                    if np.max(np.abs(nk - 1.0)) > 1e-8:
                        mon.append(f"normalize({kw}) does not give unit norms for norm({kw})")
        # standardize
        sds = np.std(X, axis=0)
        st = np.asarray(d.standardize().values)
        if not np.all(np.isfinite(st)):
            mon.append("standardize returned non-finite values")
        else:
            pv = np.var(X, axis=0)
            t = runq.add(f"roots_ok {C.qlit(1e-9 * sc * sc)} {C.qlist(sds)} (pvars opsQ {m}%nat {qX}) && "
                         f"mclose {C.qlit(1e-8 * sc / max(1e-3, float(sds[sds > 0].min()) if np.any(sds > 0) else 1.0))} "
                         f"(standardize opsQ {m}%nat {C.qlist(sds)} {qX}) {C.qmat(st)}")
            todo.append((t, "standardize" + ("/zero-variance-point" if zero_col is not None else ""), kind, X))
            v = st.var(axis=0)
            pos = sds > 1e-9 * sc
            if np.max(np.abs(v[pos] - 1.0), initial=0) > 1e-8:
                mon.append("pointwise variance after standardising is not one where it was positive")
            # the option center=False: the values are divided by the same pointwise standard deviation, not recentred
            stn = np.asarray(d.standardize(center=False).values)
            if not np.all(np.isfinite(stn)):
                mon.append("standardize(center=False) returned non-finite values")
            else:
                if np.max(np.abs(stn.var(axis=0)[pos] - 1.0), initial=0) > 1e-8:
                    mon.append("standardize(center=False): pointwise variance is not one where it was positive")
                t = runq.add(f"mclose {C.qlit(1e-8 * sc / max(1e-3, float(sds[sds > 0].min()) if np.any(sds > 0) else 1.0))} "
                             f"(standardize_nc opsQ {C.qlist(sds)} {qX}) {C.qmat(stn)}")
                todo.append((t, "standardize(center=False)", kind, X))
        # rescale: default, use_argvals_stand, user weight
        for mode in ("default", "stand", "user", "user-tiny"):
            if mode == "default":
                new, w = d.rescale(); grid_used = x; s2 = w
            elif mode == "stand":
                new, w = d.rescale(use_argvals_stand=True); grid_used = np.asarray(d.argvals_stand["input_dim_0"]); s2 = w
            elif mode == "user-tiny":
                uw = 2.0 ** -30; new, w = d.rescale(weights=uw); grid_used = x; s2 = uw    # a weight > 0 is a weight, however small
            else:
                uw = float(rng.choice([0.25, 4.0, 2.0])); new, w = d.rescale(weights=uw); grid_used = x; s2 = uw
            newv = np.asarray(new.values)
            s = float(np.sqrt(float(s2)))
            if s <= 0 or not np.isfinite(s):
                continue
            if not mode.startswith("user"):
                t = runq.add(f"qclose {C.qlit(1e-9 * sc * sc * max(1.0, np.ptp(grid_used)))} "
                             f"(rescale_weight opsQ {C.qlist(grid_used)} {qX}) {C.qlit(w)}")
                todo.append((t, f"rescale-weight/{mode}", kind, X))
            t = runq.add(f"qclose {C.qlit(1e-12 * max(1.0, s2))} ({C.qlit(s)} * {C.qlit(s)}) {C.qlit(s2)} && "
                         f"mclose {C.qlit(1e-10 * sc / min(1.0, s))} (rescale opsQ {C.qlit(s)} {qX}) {C.qmat(newv)}")
            todo.append((t, f"rescale-values/{mode}", kind, X))
            if mode == "default":
                _, w2 = fd.dense(x, newv).rescale()
                if abs(w2 - 1.0) > 1e-8:
                    mon.append(f"re-estimated weight after rescaling is {w2!r}, not one")
            if mode.startswith("user") and abs(w - uw) > 0:
                mon.append("user-supplied weight is not returned unchanged")
        # scale sweep: "any offset/scale" — the promised effects must not depend on the magnitude of the data
        for scl in (1e-9, 1e-4, 1e5):
            Xs = X * scl
            ds = fd.dense(x, Xs)
            sts = np.asarray(ds.standardize().values)
            sd_s = np.std(Xs, axis=0)
            pos = sd_s > 1e-12 * scl
            rep.case(("scale", scl, X.tobytes()), kind=f"scale-sweep/{scl:g}")
            if not np.all(np.isfinite(sts)):
                mon.append(f"standardize of data scaled by {scl:g} is not finite")
            elif np.max(np.abs(sts.var(axis=0)[pos] - 1.0), initial=0) > 1e-7:
                mon.append(f"standardize of data scaled by {scl:g}: pointwise variance is not one where it was positive")
            nrm_s = np.asarray(ds.normalize().norm()) if np.all(ds.norm() > 0) else np.ones(n)
            if np.max(np.abs(nrm_s - 1.0)) > 1e-8:
                mon.append(f"normalize of data scaled by {scl:g} does not give unit norms")
            new_s, w_s = ds.rescale()
            if w_s > 0 and abs(fd.dense(x, np.asarray(new_s.values)).rescale()[1] - 1.0) > 1e-7:
                mon.append(f"rescale of data scaled by {scl:g}: re-estimated weight is not one")
        if mon:
            rep.violation("dense data: " + "; ".join(mon), {"x": C.hexf(x), "X": C.hexf(X)})
        if i % 4 == 0:
            other_kinds(rep, rng, x, X, quick)
    unit_monitor(rep, np.random.default_rng([C.seed(), 10, 3]))
    level_monitor(rep, np.random.default_rng([C.seed(), 10, 4]))
    res = runq.run()
    for t, what, kind, X in todo:
        rep.case((what, kind, X.tobytes()), nontrivial=bool(np.ptp(X) > 0), kind=f"{what}/{kind}",
                 sample={"what": what, "grid": kind, "shape": list(X.shape), "first_row": X[0][:6].tolist()})
        if not res[t]:
            rep.disagreements_checked += 1
            rep.violation(f"{what}: implementation differs from the exact model", {"what": what, "grid": kind, "X": C.hexf(X)})


def unit_monitor(rep, rng):
    """The same curves recorded in other units (times a power of two: exact): normalising, standardising and rescaling give the
    same curves, the rescaling weight scales with the square of the factor, centring scales with the factor."""
    from FDApy.representation.basis import Basis
    from FDApy.representation.functional_data import BasisFunctionalData
    from FDApy.representation.argvals import DenseArgvals
    x = fd.grid(rng, 9, "nonuniform")
    X = fd.dyadic_matrix(rng, 5, 9) + 0.5 * np.arange(5)[:, None]
    tb = np.linspace(0, 1, 21)
    coef = fd.dyadic_matrix(rng, 4, 4) + 1.0

    def builders(c):
        yield "dense", fd.dense(x, X * c)
        yield "multivariate", fd.multivariate([fd.dense(x, X * c), fd.dense(x, X[:, ::-1] * c + c)])
        yield "basis", BasisFunctionalData(basis=Basis(name="bsplines", n_functions=4, argvals=DenseArgvals({"input_dim_0": tb})),
                                           coefficients=coef * c)

    def vals(o):
        if hasattr(o, "data"):
            return np.concatenate([np.asarray(p.values, float).ravel() for p in o.data])
        return np.asarray((o.to_grid() if not hasattr(o, "values") else o).values, float).ravel()
    ops = [("normalize", lambda o: vals(o.normalize()), 0), ("standardize", lambda o: vals(o.standardize()), 0),
           ("center", lambda o: vals(o.center()), 1), ("rescale: values", lambda o: vals(o.rescale()[0]), 0),
           ("rescale: weight", lambda o: np.atleast_1d(np.asarray(o.rescale()[1], float)), 2)]
    for e in (-30, 24):
        c = 2.0 ** e
        for (kind, o1), (_, oc) in zip(builders(1.0), builders(c)):
            bad = []
            for name, f, power in ops:
                if kind == "multivariate" and name == "standardize":
                    continue
                try:
                    with warnings.catch_warnings():
                        warnings.simplefilter("ignore")
                        a1, ac = f(o1), f(oc)
                except ModuleNotFoundError:
                    continue
                except Exception as ex:  # noqa: BLE001
                    bad.append(f"{name} raised {type(ex).__name__}: {str(ex)[:60]}")
                    continue
                want = a1 * c ** power
                if ac.shape != want.shape or not np.all(np.isfinite(ac)) or \
                        np.max(np.abs(ac - want)) > 1e-7 * max(1e-300, float(np.max(np.abs(want)))):
                    bad.append(f"{name} is not {'unchanged' if power == 0 else 'scaled by the factor^' + str(power)}")
            rep.case(("units", kind, e), kind=f"units/{kind}")
            if bad:
                rep.violation(f"{kind} data in other units (the same curves times 2^{e}): " + "; ".join(bad),
                              {"kind": kind, "x": C.hexf(x), "X": C.hexf(X), "coefficients": C.hexf(coef), "factor_exponent": e})


def level_monitor(rep, rng):
    """Curves recorded around a large level (|mean| / std ~ 1e4 .. 1e6): the rescaling weight is still the integrated pointwise
    variance (relative accuracy: eps * level / variation, not eps * level^2 / variation^2), re-estimating gives one, the
    standardised curves have unit variance."""
    x = fd.grid(rng, 9, "nonuniform")
    V = fd.dyadic_matrix(rng, 6, 9) / 64.0
    for level in (1000.0, 2.0 ** 20, -5.0e5):
        X = V + level
        d = fd.dense(x, X)
        rep.case(("level", level, V.tobytes()), kind="scale/large-level")
        bad = []
        try:
            new, w = d.rescale()
            w = float(w)
            ref = float(np.trapz(np.var(V, axis=0), x))
            if abs(w - ref) > 1e-7 * ref:
                bad.append(f"rescaling weight {w!r} is not the integrated pointwise variance {ref!r}")
            w2 = float(fd.dense(x, np.asarray(new.values)).rescale()[1])
            if abs(w2 - 1.0) > 1e-6:
                bad.append(f"re-estimated weight of the rescaled curves is {w2!r}")
            sd_ = np.asarray(d.standardize().values, float)
            if not np.all(np.isfinite(sd_)) or np.max(np.abs(sd_.var(axis=0) - 1.0)) > 1e-6:
                bad.append("standardised curves do not have unit pointwise variance")
        except Exception as e:  # noqa: BLE001
            bad.append(f"raised {type(e).__name__}: {str(e)[:80]}")
        if bad:
            rep.violation(f"dense data around the level {level:g} (variation ~ 0.05): " + "; ".join(bad),
                          {"x": C.hexf(x), "variation": C.hexf(V), "level": level})


def other_kinds(rep, rng, x, X, quick):
    """Monitors for basis-expansion, multivariate and irregular data (promised effects only)."""
    from FDApy.representation.basis import Basis
    from FDApy.representation.functional_data import BasisFunctionalData
    from FDApy.representation.argvals import DenseArgvals
    n = X.shape[0]
    # ---- basis expansion
    t = np.linspace(0, 1, 31)
    name = ["fourier", "bsplines", "legendre", "wiener"][int(rng.integers(4))]
    nf = int(rng.integers(4, 7))
    coef = fd.dyadic_matrix(rng, max(n, 3), nf) + 2.0
    def fresh():
        # a fresh object per operation: sharing of the Basis between input and result is a C16 matter
        return BasisFunctionalData(basis=Basis(name=name, n_functions=nf, argvals=DenseArgvals({"input_dim_0": t})),
                                   coefficients=coef.copy())
    bd = fresh()
    bad = []
    try:
        v0 = np.asarray(bd.to_grid().values).var(axis=0)
        cen = bd.center()
        g = np.asarray(cen.to_grid().values)
        if np.max(np.abs(g.mean(axis=0))) > 1e-9 * max(1.0, np.max(np.abs(g))):
            bad.append("centred basis data do not have zero pointwise mean")
        if np.max(np.abs(np.asarray(cen.center().coefficients) - np.asarray(cen.coefficients))) > 1e-10:
            bad.append("centering basis data twice changes the coefficients")
        nb = fresh().normalize()
        if np.max(np.abs(nb.norm() - 1.0)) > 1e-8:
            bad.append("normalised basis data do not have unit norm")
        sb = fresh().standardize()
        gs = np.asarray(sb.to_grid().values)
        if not np.all(np.isfinite(gs)):
            bad.append("standardised basis data are not finite")
        else:
            v = gs.var(axis=0)
            pos = v0 > 1e-10 * max(1.0, v0.max())
            if np.max(np.abs(v[pos] - 1.0), initial=0) > 1e-6:
                bad.append("standardised basis data do not have unit pointwise variance")
        sb2 = fresh().standardize(center=False)          # the coefficients were given a non-zero mean (+ 2.0)
        gs2 = np.asarray(sb2.to_grid().values)
        if not np.all(np.isfinite(gs2)):
            bad.append("standardised (center=False) basis data are not finite")
        else:
            v2 = gs2.var(axis=0)
            pos = v0 > 1e-10 * max(1.0, v0.max())
            if np.max(np.abs(v2[pos] - 1.0), initial=0) > 1e-6:
                bad.append(f"standardised (center=False) basis data do not have unit pointwise variance (max deviation "
                           f"{np.max(np.abs(v2[pos] - 1.0)):.3g})")
        for kw in ({"method_integration": "simpson"}, {"use_argvals_stand": True}):
            nb2 = fresh().normalize(**kw)
            if np.max(np.abs(np.asarray(nb2.norm(**kw)) - 1.0)) > 1e-8:
                bad.append(f"normalised basis data ({kw}) do not have unit norm under the same options")
        rb, w = fresh().rescale()
        _, w2 = rb.rescale()
        if abs(w2 - 1.0) > 1e-8:
            bad.append(f"re-estimated weight of rescaled basis data is {w2!r}")
        rs, ws = fresh().rescale(use_argvals_stand=True)
        if abs(float(rs.rescale(use_argvals_stand=True)[1]) - 1.0) > 1e-8:
            bad.append("re-estimated weight (use_argvals_stand) of rescaled basis data is not one")
        ru, wu = fresh().rescale(weights=4.0)
        if wu != 4.0 or np.max(np.abs(np.asarray(ru.to_grid().values) * 2.0 - np.asarray(fresh().to_grid().values))) > 1e-9 * max(1.0, float(np.max(np.abs(coef)))):
            bad.append("a user-supplied weight w does not divide basis data by sqrt(w)")
    except ModuleNotFoundError as e:
        rep.notes.append(f"basis monitors skipped: {e}")
    # integer-dtype coefficients (counts, digitised expansions): every operation gives what it gives on the same numbers as floats
    try:
        ci = (np.round(coef * 4).astype(np.int64) + np.arange(coef.shape[0])[:, None] % 3)
        def with_coef(c):
            return BasisFunctionalData(basis=Basis(name=name, n_functions=nf, argvals=DenseArgvals({"input_dim_0": t})),
                                       coefficients=c.copy())
        for opn, op in (("center()", lambda b: b.center().coefficients), ("standardize()", lambda b: b.standardize().to_grid().values),
                        ("normalize()", lambda b: b.normalize().coefficients), ("rescale()", lambda b: b.rescale()[0].coefficients)):
            with warnings.catch_warnings():
                warnings.simplefilter("ignore")
                want = np.asarray(op(with_coef(ci.astype(float))), float)
                got = np.asarray(op(with_coef(ci)), float)
            if got.shape != want.shape or not np.allclose(got, want, rtol=1e-9, atol=1e-9 * max(1.0, float(np.max(np.abs(want)))),
                                                          equal_nan=True):
                bad.append(f"{opn} on integer-dtype coefficients differs from the result on the same numbers as floats "
                           f"(max {float(np.max(np.abs(got - want))) if got.shape == want.shape else float('nan'):.3g})")
    except ModuleNotFoundError as e:
        rep.notes.append(f"basis integer-coefficient monitors skipped: {e}")
    rep.case(("basis", name, coef.tobytes()), kind=f"basis/{name}")
    if bad:
        rep.violation(f"basis-expansion data ({name}): " + "; ".join(bad), {"basis": name, "n_functions": nf, "coefficients": C.hexf(coef)})
    # ---- multivariate
    x2 = fd.grid(rng, 6, "nonuniform")
    X2 = fd.dyadic_matrix(rng, n, 6) + 1.0
    mv = fd.multivariate([fd.dense(x, X), fd.dense(x2, X2)])
    bad = []
    cm = mv.center()
    for comp in cm.data:
        if np.max(np.abs(np.asarray(comp.values).mean(axis=0))) > 1e-9 * max(1.0, np.max(np.abs(X))):
            bad.append("a centred component does not have zero mean")
    if np.all(mv.norm() > 1e-8):
        nm = mv.normalize()
        if np.max(np.abs(nm.norm() - 1.0)) > 1e-8:
            bad.append("normalised multivariate observations do not have unit multivariate norm")
        # ... under every option the norm accepts: the normalised data have unit norm FOR THAT NORM
        for kw in ({"use_argvals_stand": True}, {"method_integration": "simpson"},
                   {"use_argvals_stand": True, "method_integration": "simpson"}):
            if np.all(np.asarray(mv.norm(**kw)) > 1e-8):
                nk = np.asarray(mv.normalize(**kw).norm(**kw), float)
                if np.max(np.abs(nk - 1.0)) > 1e-8:
                    bad.append(f"multivariate normalize({kw}) does not give unit norms for norm({kw}) (got {nk[:3].tolist()})")
    # component-wise under every option: default, standardised grids, simpson, user weights
    for label, kw, kws in (("default", {}, [{}, {}]),
                           ("use_argvals_stand", {"use_argvals_stand": True}, [{"use_argvals_stand": True}] * 2),
                           ("simpson", {"method_integration": "simpson"}, [{"method_integration": "simpson"}] * 2),
                           ("user weights", {"weights": np.array([0.25, 4.0])}, [{"weights": 0.25}, {"weights": 4.0}])):
        rm, ws = mv.rescale(**kw)
        for comp, w, raw, kwc in zip(rm.data, ws, mv.data, kws):
            own, w0 = raw.rescale(**kwc)
            if abs(w - w0) > 1e-10 * max(1.0, abs(w0)):
                bad.append(f"multivariate rescale ({label}): weight differs from the component's own weight under the same option")
            if np.max(np.abs(np.asarray(comp.values) - np.asarray(own.values))) > 1e-10 * max(1.0, np.max(np.abs(np.asarray(own.values)))):
                bad.append(f"multivariate rescale ({label}): values differ from the component's own rescaling under the same option")
            if w0 > 1e-12 and np.max(np.abs(np.asarray(comp.values) * np.sqrt(w0) - np.asarray(raw.values))) > 1e-9 * max(1.0, np.max(np.abs(np.asarray(raw.values)))):
                bad.append(f"multivariate rescale ({label}) does not divide the component by sqrt(weight)")
    rep.case(("mv", X.tobytes(), X2.tobytes()), kind="multivariate")
    if bad:
        rep.violation("multivariate data: " + "; ".join(sorted(set(bad))), {"X1": C.hexf(X), "X2": C.hexf(X2), "x1": C.hexf(x), "x2": C.hexf(x2)})
    # ---- irregular data: center subtracts, at each curve's own points, the mean estimated with the same options
    m = len(x)
    masks = rng.uniform(size=(n, m)) < 0.75
    masks[:, [0, -1]] = True
    for k in range(n):
        if masks[k].sum() < 3:
            masks[k, :3] = True
    for enc in ("ragged", "nan"):
        try:
            if enc == "ragged":
                irr = fd.irregular([x[masks[k]] for k in range(n)], [X[k][masks[k]] for k in range(n)])
            else:
                irr = fd.irregular([x for _ in range(n)], [np.where(masks[k], X[k], np.nan) for k in range(n)])
            kw = dict(method_smoothing="LP", bandwidth=float(0.6 * np.ptp(x)))
            mean = irr.mean(**kw)
            cen = irr.center(**kw)
            bad = []
            mg = np.asarray(mean.argvals["input_dim_0"]); mvv = np.asarray(mean.values)[0]
            for k in range(n):
                tk = np.asarray(cen.argvals[k]["input_dim_0"]); vk = np.asarray(cen.values[k])
                ok = np.isfinite(vk)
                src = np.asarray(irr.values[k]); st = np.asarray(irr.argvals[k]["input_dim_0"])
                idx = np.searchsorted(mg, tk[ok])
                if np.any(idx >= len(mg)) or np.max(np.abs(mg[idx] - tk[ok]), initial=0) > 1e-12 * max(1.0, np.max(np.abs(mg))):
                    bad.append("mean is not available at a curve's own sampling points"); break
                want = src[np.isin(st, tk[ok])] - mvv[idx]
                if len(want) != ok.sum() or np.max(np.abs(vk[ok] - want), initial=0) > 1e-9 * max(1.0, np.max(np.abs(X))):
                    bad.append("centred values are not values minus the estimated mean at the curve's own points"); break
            # normalising / rescaling irregular data (same promised effects, smoothing options fixed explicitly)
            import warnings as _w
            with _w.catch_warnings():
                _w.simplefilter("ignore")
                nr = np.asarray(irr.norm(), float)
                if np.all(nr > 1e-8) and np.max(np.abs(np.asarray(irr.normalize().norm(), float) - 1.0)) > 1e-8:
                    bad.append("normalised irregular observations do not have unit norm")
                ru, wu = irr.rescale(weights=4.0)
                if wu != 4.0 or any(np.nanmax(np.abs(np.asarray(ru.values[k]) * 2.0 - np.asarray(irr.values[k]))) > 1e-12 * max(1.0, np.max(np.abs(X)))
                                    for k in range(n)):
                    bad.append("a user-supplied weight w does not divide the irregular values by sqrt(w)")
                r1, w1 = irr.rescale(**kw)
                if w1 > 1e-12:
                    w2 = float(r1.rescale(**kw)[1])
                    if abs(w2 - 1.0) > 1e-6:
                        bad.append(f"re-estimated weight of rescaled irregular data is {w2!r}, not one")
            rep.case(("irr", enc, X.tobytes(), masks.tobytes()), kind=f"irregular/{enc}")
            if bad:
                rep.violation(f"irregular data ({enc} encoding): " + "; ".join(bad),
                              {"x": C.hexf(x), "X": C.hexf(X), "mask": masks.astype(int).tolist(), "encoding": enc})
        except Exception as e:  # noqa: BLE001
            rep.notes.append(f"irregular/{enc} center monitor raised {type(e).__name__}: {e}"[:200])
