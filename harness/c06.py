"""C06 — local polynomial regression is the kernel-weighted least-squares fit per point."""
from __future__ import annotations

import warnings

import numpy as np

from harness import common as C
from harness import fd

IMPORTS = ("From FDAV Require Import Base.Num Base.Vec Base.Cmp Model.Basis Model.Pspline Model.LocalPoly Tie.C06.")
RULE = ("1-D and 2-D scattered designs (n 8..40 quick / 8..200 thorough, unsorted, with ties), kernels gaussian / epanechnikov / tricube / "
        "bisquare, degree 0..3, bandwidth from a few spacings to the whole range, query points inside the design range, domains [0,1], "
        "day-of-year 1..365, [100,101], [-1,1] and shifted/scaled copies: for every query point the implementation's estimate is checked, "
        "exactly in Q, to be the intercept of a solution of the MODEL's kernel-weighted normal equations (design on (x-x0)/h, exact compact "
        "kernels; Gaussian weights and 2-D norms enter as checked oracle values). Only problems whose scaled local Gram matrix has "
        "condition number <= 1e8 are judged. Monitors on the implementation: linearity, polynomial reproduction, locality, shift/scale "
        "invariance, kernel values. Non-trivial: degree >= 1; distinct by inputs.")
ASSUME = ["exact-arithmetic model; the solution of each local system is a numpy candidate verified as a certificate (residual <= 1e-9*scale)",
          "Gaussian kernel values are oracle inputs to the executable model (positivity is a theorem about the real-number kernel)",
          "ill-conditioned local problems (cond > 1e8 on the scaled design) are skipped and counted"]

KERNELS = ["epanechnikov", "tricube", "bisquare", "gaussian"]
KID = {"epanechnikov": 0, "tricube": 1, "bisquare": 2}


def kernel_np(name, t):
    t = np.abs(t)
    if name == "gaussian":
        return np.exp(-t * t / 2) / np.sqrt(2 * np.pi)
    if name == "epanechnikov":
        return np.where(t <= 1, 0.75 * (1 - t * t), 0.0)
    if name == "tricube":
        return np.where(t < 1, (1 - t ** 3) ** 3, 0.0)
    return np.where(t < 1, (1 - t * t) ** 2, 0.0)


def design_np(U, p):
    if U.ndim == 1:
        return np.vander(U, p + 1, increasing=True)
    cols = []
    for d in range(p + 1):
        for k in range(d + 1):
            cols.append(U[:, 0] ** (d - k) * U[:, 1] ** k)
    return np.array(cols).T


_COUNTER = [0]


def make_lp(kernel, h, p):
    """Half of the smoothers are configured through the constructor, half through the public setters
    (kernel / bandwidth / degree changed after construction) — both must give the same estimator."""
    from FDApy.preprocessing.smoothing.local_polynomial import LocalPolynomial
    _COUNTER[0] += 1
    if _COUNTER[0] % 2:
        return LocalPolynomial(kernel_name=kernel, bandwidth=h, degree=p)
    other = KERNELS[(KERNELS.index(kernel) + 1 + _COUNTER[0] % 3) % 4]
    lp = LocalPolynomial(kernel_name=other, bandwidth=3.0 * h + 1.0, degree=(p + 1) % 4)
    lp.kernel_name = kernel
    lp.bandwidth = h
    lp.degree = p
    return lp


def run(rep, props, replay=None):
    quick = C.tier() == "quick"
    rng = np.random.default_rng([C.seed(), 6])
    runq = C.CoqRun("C06", IMPORTS, shard=8)
    todo = []
    domains = [(0.0, 1.0), (1.0, 365.0), (100.0, 101.0), (-1.0, 1.0), (-40.0, 25.0)]
    n_cases = 20 if quick else 250
    for i in range(n_cases):
        a, b = domains[i % len(domains)]
        n = int(rng.integers(8, 41 if quick else 201))
        kernel = KERNELS[i % 4]
        p = int(rng.integers(0, 4))
        u = np.round(rng.uniform(0, 1, size=n) * 256) / 256
        if i % 3 == 0:
            u[: n // 4] = u[n // 4: 2 * (n // 4)]             # ties
        x = a + (b - a) * u
        rng.shuffle(x)
        h = float((b - a) * rng.choice([0.15, 0.3, 0.6, 1.0]))
        y = np.round((np.sin(3 * (x - a) / (b - a)) * 4 + rng.normal(size=n) * 0.3 + 2.0) * 256) / 256
        xq = a + (b - a) * np.round(np.sort(rng.uniform(0.02, 0.98, size=3)) * 64) / 64
        with warnings.catch_warnings():
            warnings.simplefilter("ignore")
            est = np.asarray(make_lp(kernel, h, p).predict(y=y, x=x, x_new=xq), float)
        opts = {"dim": 1, "kernel": kernel, "degree": p, "bandwidth": h, "domain": [a, b], "n": n}
        replay_d = {**opts, "x": C.hexf(x), "y": C.hexf(y), "x_new": C.hexf(xq)}
        default_query(rep, kernel, h, p, x, y, np.unique(x), replay_d)
        for q, x0 in enumerate(xq):
            U = (x - x0) / h
            w = kernel_np(kernel, U)
            D = design_np(U, p)
            G = D.T @ (w[:, None] * D)
            if np.count_nonzero(w) < p + 1 or np.linalg.cond(G) > 1e8:
                rep.dist["skipped-ill-conditioned"] = rep.dist.get("skipped-ill-conditioned", 0) + 1
                continue
            beta = np.linalg.solve(G, D.T @ (w * y))
            scale = float(np.max(np.abs(G)) * max(1.0, np.max(np.abs(beta))) * (p + 1) + np.max(np.abs(D.T @ (w * y))))
            tolA, tol = 1e-9 * scale, 1e-7 * max(1.0, float(np.max(np.abs(y))))
            key = (1, kernel, p, h, x.tobytes(), y.tobytes(), float(x0))
            if kernel == "gaussian":
                t = runq.add(f"lp1w_ok {C.qlit(tolA)} {C.qlit(tol)} {p}%nat {C.qlit(x0)} {C.qlit(h)} {runq.vec(x)} {runq.vec(w)} "
                             f"{runq.vec(y)} {C.qlist(beta)} {C.qlit(est[q])}")
            else:
                t = runq.add(f"lp1_ok {C.qlit(tolA)} {C.qlit(tol)} {KID[kernel]}%nat {p}%nat {C.qlit(x0)} {C.qlit(h)} {runq.vec(x)} "
                             f"{runq.vec(y)} {C.qlist(beta)} {C.qlit(est[q])}")
            todo.append((t, key, opts, {**replay_d, "x0": float(x0), "estimate": float(est[q])}))
        monitors_1d(rep, rng, kernel, p, h, x, y, xq, est, a, b, replay_d)
        if i % 4 == 0:
            case_2d(rep, rng, runq, todo, quick, i)
    kernel_monitor(rep)
    integer_design(rep, rng)
    far_origin(rep, rng)
    # the TRANSLATED kernels (Gen/Kernels.v, regenerated from the source text) executed in Q against the running code:
    # validates the translator itself (what it emits is what the code computes), incl. the support boundary
    from FDApy.preprocessing.smoothing import local_polynomial as lpmod
    us = np.concatenate([[0.0, 1.0, -1.0, 0.5, -0.5, 1.0 + 2.0 ** -20, -(1.0 - 2.0 ** -20), 1.5, -3.0],
                         np.round(rng.uniform(-1.25, 1.25, size=12 if quick else 60) * 1024) / 1024])
    ktodo = []
    runk = C.CoqRun("C06", IMPORTS.replace("Tie.C06.", "Gen.Kernels Tie.C06."), shard=1)
    for name in ("epanechnikov", "tricube", "bisquare"):
        vals = np.asarray(lpmod._kernel(name)(us.copy()), float)
        t = runk.add("forallb (fun p => qclose " + C.qlit(1e-15) + f" (gen_kernel_{name} opsQ (fst p)) (snd p)) "
                     + "[" + "; ".join(f"({C.qlit(u)}, {C.qlit(v)})" for u, v in zip(us, vals)) + "]")
        ktodo.append((t, name, vals))
    res = runq.run()
    try:
        resk = runk.run()
    except RuntimeError as e:
        # the generated file does not load: the translator rejected the current source (fail closed).  The proof gate
        # reports the broken obligations; the hand-written model above still supplies failing inputs if the behaviour changed.
        rep.notes.append(("translated kernels could not be evaluated (Gen/Kernels.v does not load): " + str(e))[:300])
        resk, ktodo = {}, []
    for t, name, vals in ktodo:
        rep.case(("translated-kernel", name, us.tobytes()), kind=f"translated-kernel/{name}",
                 sample={"kernel": name, "n_points": int(len(us))})
        if not resk[t]:
            rep.disagreements_checked += 1
            rep.violation(f"translator check: the Gallina translation of the {name} kernel evaluated in Q differs from the running "
                          f"code on the same arguments", {"kernel": name, "u": C.hexf(us), "values": C.hexf(vals)})
    for t, key, opts, rp in todo:
        rep.case(key, nontrivial=opts["degree"] >= 1, kind=f"{opts['dim']}-D/{opts['kernel']}/deg{opts['degree']}", sample=opts)
        if not res[t]:
            rep.disagreements_checked += 1
            rep.violation("estimate is not the intercept of the kernel-weighted least-squares fit on the centred, scaled design",
                          rp)


def monitors_1d(rep, rng, kernel, p, h, x, y, xq, est, a, b, replay_d):
    def pred(yy, xx=x, qq=xq, hh=h):
        with warnings.catch_warnings():
            warnings.simplefilter("ignore")
            return np.asarray(make_lp(kernel, hh, p).predict(y=yy, x=xx, x_new=qq), float)
    ok = []
    for x0 in xq:                                    # only judge well-conditioned query points
        U = (x - x0) / h
        w = kernel_np(kernel, U)
        D = design_np(U, p)
        ok.append(np.count_nonzero(w) >= p + 1 and np.linalg.cond(D.T @ (w[:, None] * D)) <= 1e8)
    ok = np.array(ok)
    if not ok.any():
        return
    sc = max(1.0, float(np.max(np.abs(y))))
    bad = []
    y2 = np.round(rng.normal(size=len(y)) * 16) / 16
    if np.max(np.abs(pred(1.5 * y - 0.25 * y2) - (1.5 * est - 0.25 * pred(y2)))[ok]) > 1e-7 * sc:
        bad.append("not linear in the responses")
    coef = np.round(rng.normal(size=p + 1) * 4) / 4
    pol = sum(c * ((x - a) / (b - a)) ** j for j, c in enumerate(coef))
    polq = sum(c * ((xq - a) / (b - a)) ** j for j, c in enumerate(coef))
    if np.max(np.abs(pred(pol) - polq)[ok]) > 1e-6 * max(1.0, float(np.max(np.abs(pol)))):
        bad.append(f"does not reproduce a polynomial of degree {p}")
    c2 = 2.0 ** -30
    # C06_design_invariant / C06_weights_invariant with a = 2^-30 (exact): abscissae, query points and bandwidth in other units
    if np.max(np.abs(pred(y, x * c2, xq * c2, h * c2) - est)[ok]) > 1e-7 * sc:
        bad.append("design, query points and bandwidth expressed in other units (times 2^-30) change the estimates")
    if np.max(np.abs(pred(y * c2) - c2 * est)[ok]) > 1e-7 * c2 * sc:
        bad.append("the estimates for the responses times 2^-30 are not 2^-30 times the estimates")
    if kernel != "gaussian":
        far = np.all(np.abs(x[:, None] - xq[None, :]) >= h, axis=1)
        if far.any():
            y3 = y.copy()
            y3[far] += 100.0
            if np.max(np.abs(pred(y3) - est)[ok]) > 1e-7 * sc:
                bad.append("responses outside every window change the estimates")
    for (sa, sb) in ((3.0, -7.0), (0.01, 50.0)):
        shifted = pred(y, xx=sa * x + sb, qq=sa * xq + sb, hh=sa * h)
        if np.max(np.abs(shifted - est)[ok]) > 1e-6 * sc:
            bad.append(f"not invariant under x -> {sa}x + {sb} with the bandwidth scaled alike")
    rep.case(("mon1", kernel, p, h, x.tobytes()), kind="monitors-1D")
    if bad:
        rep.violation("local polynomial smoother: " + "; ".join(bad), replay_d)


def case_2d(rep, rng, runq, todo, quick, i):
    n = int(rng.integers(15, 41 if quick else 120))
    kernel = KERNELS[(i // 4) % 4]
    p = int(rng.integers(0, 3))
    X = np.round(rng.uniform(0, 1, size=(n, 2)) * 128) / 128 * np.array([1.0, 10.0]) + np.array([5.0, -3.0])
    h = float(rng.choice([4.0, 8.0, 20.0]))
    y = np.round((X[:, 0] + 0.1 * X[:, 1] ** 2 + rng.normal(size=n) * 0.2) * 256) / 256
    Xq = np.round(rng.uniform(0.2, 0.8, size=(2, 2)) * 32) / 32 * np.array([1.0, 10.0]) + np.array([5.0, -3.0])
    with warnings.catch_warnings():
        warnings.simplefilter("ignore")
        est = np.asarray(make_lp(kernel, h, p).predict(y=y, x=X, x_new=Xq), float)
    opts = {"dim": 2, "kernel": kernel, "degree": p, "bandwidth": h, "n": n}
    Xt = np.vstack([X, X[: max(2, n // 5)]])                       # replicated sites
    yt = np.concatenate([y, y[: max(2, n // 5)] + 1.0])
    default_query(rep, kernel, h, p, Xt, yt, np.unique(Xt, axis=0), {**opts, "X": C.hexf(Xt), "y": C.hexf(yt)})
    nb = (p + 1) * (p + 2) // 2
    for q, x0 in enumerate(Xq):
        U = (X - x0) / h
        r = np.linalg.norm(U, axis=1)
        w = kernel_np(kernel, r)
        D = design_np(U, p)
        G = D.T @ (w[:, None] * D)
        if np.count_nonzero(w) < nb or np.linalg.cond(G) > 1e8 or kernel == "gaussian":
            rep.dist["skipped-2d"] = rep.dist.get("skipped-2d", 0) + 1
            continue
        beta = np.linalg.solve(G, D.T @ (w * y))
        scale = float(np.max(np.abs(G)) * max(1.0, np.max(np.abs(beta))) * nb + np.max(np.abs(D.T @ (w * y))))
        pts = "[" + "; ".join(f"({C.qlit(a_)}, {C.qlit(b_)})" for a_, b_ in X) + "]"
        # near the edge of the support an oracle norm error moves the compact kernels: widen the residual tolerance
        t = runq.add(f"lp2_ok {C.qlit(1e-7 * scale)} {C.qlit(1e-6 * max(1.0, float(np.max(np.abs(y)))))} {C.qlit(1e-12)} "
                     f"{KID[kernel]}%nat {p}%nat {nb}%nat {C.qlit(x0[0])} {C.qlit(x0[1])} {C.qlit(h)} {pts} {runq.vec(r)} "
                     f"{runq.vec(y)} {C.qlist(beta)} {C.qlit(est[q])}")
        todo.append((t, (2, kernel, p, h, X.tobytes(), y.tobytes(), tuple(x0)), opts,
                     {**opts, "X": C.hexf(X), "y": C.hexf(y), "x0": [float(v) for v in x0], "estimate": float(est[q])}))


def default_query(rep, kernel, h, p, x, y, distinct, replay_d):
    """x_new left to its default = the distinct design points; ALL observations (ties included) stay in the fit."""
    with warnings.catch_warnings():
        warnings.simplefilter("ignore")
        e_def = np.asarray(make_lp(kernel, h, p).predict(y=y, x=x), float)
        e_exp = np.asarray(make_lp(kernel, h, p).predict(y=y, x=x, x_new=distinct), float)
    rep.case(("default-query", kernel, p, h, np.asarray(x).tobytes(), y.tobytes()), kind=f"default-query/{np.ndim(x)}-D")
    fin = np.isfinite(e_exp) & (np.abs(e_exp) < 1e6)
    if e_def.shape != e_exp.shape or np.max(np.abs(e_def - e_exp)[fin], initial=0) > 1e-9 * max(1.0, float(np.max(np.abs(y)))):
        rep.violation(f"predict with x_new left to its default ({kernel}, degree {p}) differs from predict at the distinct design "
                      f"points given explicitly (design with {len(x) - len(distinct)} tied observations)", replay_d)


def integer_design(rep, rng):
    """an integer-dtype design (days 1..365, indices) with non-integer query points gives what the same numbers give as floats"""
    xi = np.arange(1, 41) * int(rng.integers(1, 4))
    y = np.round((np.sin(xi / 7.0) * 3 + rng.normal(size=len(xi)) * 0.2) * 256) / 256
    xq = np.sort(np.round(rng.uniform(xi[2], xi[-3], size=5) * 16) / 16 + 1.0 / 32)          # never integers
    for kernel, p in (("epanechnikov", 1), ("gaussian", 2)):
        h = float(8 * (xi[1] - xi[0]))
        with warnings.catch_warnings():
            warnings.simplefilter("ignore")
            ei = np.asarray(make_lp(kernel, h, p).predict(y=y, x=xi, x_new=xq), float)
            ef = np.asarray(make_lp(kernel, h, p).predict(y=y, x=xi.astype(float), x_new=xq), float)
            yi = np.round(y * 4).astype(int)
            e2 = np.asarray(make_lp(kernel, h, p).predict(y=yi, x=xi, x_new=xq), float)
            e2f = np.asarray(make_lp(kernel, h, p).predict(y=yi.astype(float), x=xi.astype(float), x_new=xq), float)
        rep.case(("integer-design", kernel, p, xi.tobytes(), xq.tobytes()), kind="dtype/integer-design")
        bad = []
        if ei.shape != ef.shape or np.max(np.abs(ei - ef)) > 1e-10 * max(1.0, float(np.max(np.abs(ef)))):
            bad.append(f"integer-dtype design: estimates differ from the float design by {np.max(np.abs(ei - ef)):.3g}")
        if e2.shape != e2f.shape or np.max(np.abs(e2 - e2f)) > 1e-10 * max(1.0, float(np.max(np.abs(e2f)))):
            bad.append(f"integer-dtype design and responses: estimates differ from the float version by {np.max(np.abs(e2 - e2f)):.3g}")
        if bad:
            rep.violation(f"local polynomial smoother ({kernel}, degree {p}): " + "; ".join(bad),
                          {"x": xi.tolist(), "y": C.hexf(y), "x_new": C.hexf(xq)})


def far_origin(rep, rng):
    """Abscissae far from the origin (time stamps, years): the fit is a function of x - x0, so a design moved by an exactly
    representable offset, queried at the moved points, gives the same estimates (1-D and 2-D, every kernel)."""
    n = 30
    u = np.round(rng.uniform(0, 64, size=n) * 64) / 64
    y = np.round((np.sin(u / 9.0) * 3 + rng.normal(size=n) * 0.2 + 1.0) * 256) / 256
    uq = np.round(np.sort(rng.uniform(4, 60, size=4)) * 16) / 16
    u2 = np.round(rng.uniform(0, 8, size=(n, 2)) * 64) / 64
    uq2 = np.round(rng.uniform(2, 6, size=(3, 2)) * 16) / 16
    for k, kernel in enumerate(KERNELS):
        p = k % 3
        for c in (2.0 ** 22, -(2.0 ** 27), 1.7e9):
            with warnings.catch_warnings():
                warnings.simplefilter("ignore")
                try:
                    e0 = np.asarray(make_lp(kernel, 12.0, p).predict(y=y, x=u, x_new=uq), float)
                    e1 = np.asarray(make_lp(kernel, 12.0, p).predict(y=y, x=u + c, x_new=uq + c), float)
                    f0 = np.asarray(make_lp(kernel, 3.0, min(p, 1)).predict(y=y, x=u2, x_new=uq2), float)
                    f1 = np.asarray(make_lp(kernel, 3.0, min(p, 1)).predict(y=y, x=u2 + np.array([c, -c / 4]), x_new=uq2 + np.array([c, -c / 4])), float)
                except Exception as e:  # noqa: BLE001
                    rep.violation(f"local polynomial smoother ({kernel}, degree {p}) raised {type(e).__name__}: {e} on a design far "
                                  f"from the origin"[:300], {"x": C.hexf(u), "offset": c})
                    continue
            rep.case(("far-origin", kernel, p, c, u.tobytes()), kind="far-origin")
            tol = 1e-8 * max(1.0, float(np.max(np.abs(y))))
            bad = []
            if e0.shape != e1.shape or not np.all(np.isfinite(e1)) or np.max(np.abs(e0 - e1)) > tol:
                bad.append(f"1-D estimates move by {np.max(np.abs(e0 - e1)):.3g}")
            if f0.shape != f1.shape or not np.all(np.isfinite(f1)) or np.max(np.abs(f0 - f1)) > tol:
                bad.append(f"2-D estimates move by {np.max(np.abs(f0 - f1)):.3g}")
            if bad:
                rep.violation(f"local polynomial smoother ({kernel}, degree {p}): the estimate depends on the origin of the abscissae — "
                              f"design and query points moved by {c!r}: " + "; ".join(bad) + " (the weights are a function of x - x0)",
                              {"x": C.hexf(u), "x2": C.hexf(u2), "y": C.hexf(y), "x_new": C.hexf(uq), "x_new2": C.hexf(uq2), "offset": c,
                               "kernel": kernel, "degree": p})


def kernel_monitor(rep):
    from FDApy.preprocessing.smoothing import local_polynomial as lp
    t = np.array([0.0, 0.25, 0.5, 0.999, 1.0, 1.0001, 2.5, 3.25, 4.5, 7.0])
    bad = []
    for name, f in (("epanechnikov", lp._epanechnikov), ("tricube", lp._tri_cube), ("bisquare", lp._bi_square),
                    ("gaussian", lp._gaussian)):
        v, vm = np.asarray(f(t), float), np.asarray(f(-t), float)
        if np.any(v < 0):
            bad.append(f"{name} negative")
        if np.max(np.abs(v - vm)) > 0:
            bad.append(f"{name} not even")
        if name != "gaussian" and np.any(v[t >= 1] != 0):
            bad.append(f"{name} does not vanish beyond one bandwidth")
        if np.max(np.abs(v - kernel_np(name, t))) > 1e-15:
            bad.append(f"{name} differs from its closed form")
    rep.case(("kernels",), kind="kernel-values")
    if bad:
        rep.violation("kernels: " + "; ".join(bad), {"t": t.tolist()})
