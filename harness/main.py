"""Entry point: python -m harness.main Cxx [--tier quick|thorough] [--replay file]"""
from __future__ import annotations

import argparse
import importlib
import json
import os
import sys
import traceback
import warnings


def main():
    ap = argparse.ArgumentParser()
    ap.add_argument("pid")
    ap.add_argument("--tier", default=os.environ.get("VERIF_TIER", "quick"))
    ap.add_argument("--replay", default=None)
    args = ap.parse_args()
    os.environ["VERIF_TIER"] = args.tier
    warnings.filterwarnings("ignore")
    from harness import common as C
    pid = args.pid.upper()
    rep = C.Report(pid)
    mod = importlib.import_module(f"harness.{pid.lower()}")
    props = C.proof_gate(rep, pid)
    replay = None
    if args.replay:
        replay = json.loads(open(args.replay).read())
    try:
        mod.run(rep, props, replay=replay)
    except Exception as e:  # noqa: BLE001  - a crashing harness must not look like success
        tb = traceback.format_exc()
        rep.violation(f"check crashed: {type(e).__name__}: {e}", {"traceback": tb[-4000:]}, no_input=True)
    if not props.get("ok"):
        # a proof obligation no longer checks: property not shown to hold.
        if not any(not v["no_input"] for v in rep.violations):
            rep.violation("proof obligations of Props/%s.v no longer check (%s)" % (
                pid, (props.get("output_tail") or "")[-600:]),
                {"broken": f"Props/{pid}.v", "output": props.get("output_tail")}, no_input=True)
    sys.exit(rep.finish(props, mod.RULE, mod.ASSUME))


if __name__ == "__main__":
    main()
