"""Entry point: python -m harness.main Cxx [--tier quick|thorough] [--replay file]"""
from __future__ import annotations

import argparse
import importlib
import json
import os
import sys
import traceback
import warnings


GENERIC_REPLAY = {"C01", "C02", "C03", "C04", "C05", "C06", "C07", "C08", "C09", "C10", "C14", "C18"}


def main():
    ap = argparse.ArgumentParser()
    ap.add_argument("pid")
    ap.add_argument("--tier", default=os.environ.get("VERIF_TIER", "quick"))
    ap.add_argument("--replay", default=None)
    args = ap.parse_args()
    os.environ["VERIF_TIER"] = args.tier
    warnings.filterwarnings("ignore")
    from harness import common as C
    pid = args.pid.upper()
    rep = C.Report(pid)
    mod = importlib.import_module(f"harness.{pid.lower()}")
    props = C.proof_gate(rep, pid)
    replay = None
    generic_replay = None
    if args.replay:
        replay = json.loads(open(args.replay).read())
        if pid in GENERIC_REPLAY:
            # deterministic re-execution: same seed and tier as the run that wrote the replay file; the violation
            # is reproduced iff a violation with the same description occurs again
            generic_replay, replay = replay, None
            os.environ["VERIF_SEED"] = str(generic_replay.get("seed", C.seed()))
            os.environ["VERIF_TIER"] = str(generic_replay.get("tier", args.tier))
    try:
        snap0 = C.defaults_snapshot()
    except Exception:  # noqa: BLE001
        snap0 = None
    try:
        mod.run(rep, props, replay=replay)
        if snap0 is not None and replay is None and generic_replay is None:
            snap1 = C.defaults_snapshot()
            changed = sorted(k for k in snap0 if snap1.get(k) != snap0[k])
            if changed:
                msg = ("mutable default argument(s) modified during the run (state that leaks from one call into every later "
                       "call): " + "; ".join(f"{k}: {snap0[k]} -> {snap1.get(k)}" for k in changed))[:600]
                rep.notes.append(msg)
                # judged where repeatability / history independence is the property itself (C16), for public parameters
                if pid == "C16" and any(not k.split("#")[-1].startswith("_") for k in changed):
                    rep.violation(msg, {"changed_defaults": {k: [snap0[k], snap1.get(k)] for k in changed}})
        if generic_replay is not None:
            same = [v for v in rep.violations if json.load(open(v["replay"])).get("what") == generic_replay.get("what")]
            print(f"replay of {args.replay}: " + ("REPRODUCED" if same else "not reproduced on the current tree"))
            rep.violations = same
    except Exception as e:  # noqa: BLE001  - a crashing harness must not look like success
        tb = traceback.format_exc()
        rep.violation(f"check crashed: {type(e).__name__}: {e}", {"traceback": tb[-4000:]}, no_input=True)
    if not props.get("ok"):
        # a proof obligation no longer checks: property not shown to hold.
        if not any(not v["no_input"] for v in rep.violations):
            rep.violation("proof obligations of Props/%s.v no longer check (%s)" % (
                pid, (props.get("output_tail") or "")[-600:]),
                {"broken": f"Props/{pid}.v", "output": props.get("output_tail")}, no_input=True)
    sys.exit(rep.finish(props, mod.RULE, mod.ASSUME))


if __name__ == "__main__":
    main()
