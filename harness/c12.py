"""C12 — arithmetic is pointwise and guarded; equality is a sound total comparison.

Real DenseFunctionalData / IrregularFunctionalData operands (1-D and 2-D) are combined
with + - * / // among themselves and with Python scalars; compared with == ; looked up
in / removed from MultivariateFunctionalData.  The same operands go, as exact rationals,
through the Coq model (Model/Arith.v at opsQ); comparison happens inside Coq.
"""
from __future__ import annotations

import copy
import operator

import numpy as np

from harness import common as C

IMPORTS = "From FDAV Require Import Base.Num Base.Vec Base.Cmp Model.Arith Tie.C12."

RULE = ("pairs of dense / irregular datasets in 1-D / 2-D, compatible or incompatible in exactly one respect (type, n_obs, n_points, "
        "dimension, grid values of the first curve, or ONLY of the last curve / last dimension), operators + - * / // : outcome class (result / TypeError / ValueError), type, sampling points and "
        "values of the result against binop of Model/Arith.v evaluated exactly in Q (+,-,* on dyadic inputs: exact equality; / : "
        "1e-12 relative; // : floor of the exact quotient unless that is within 1e-9 of an integer); operands byte-identical before "
        "and after; Python int / float / bool / np.float64 scalars likewise (np.int64 / np.float32 may be rejected with TypeError); "
        "float monitors for (a+b)-b=a, a*1=a, commutativity, distributivity; == over identical, close, far, differently shaped, "
        "differently sampled (incl. pairs that differ only in the grid, resp. only in the values, of the LAST curve) and mixed-kind pairs against fd_eqb (must return a bool, never raise); `in` and remove() on multivariate "
        "objects against mv_mem / mv_remove. Non-trivial = at least two observations or two points; distinct by operand bytes.")
ASSUME = ["exact-arithmetic model; division compared with relative tolerance 1e-12; divisors bounded away from 0",
          "np.allclose thresholds are sampled at 0.5x / 2x the threshold, at 0, ~1e-9, >= 1e-3, and at the engineered point between "
          "atol+rtol|y| and atol+rtol|x| (margin 5e-6 of the threshold, about 1e5 ulps); nothing closer to the threshold",
          "irregular data use the canonical labels 0..n-1 in both dictionaries (label bookkeeping is property C13 / C15)"]

OPS = [("Add", operator.add), ("Sub", operator.sub), ("Mul", operator.mul), ("Div", operator.truediv)]


# --------------------------------------------------------------------------
# operands
# --------------------------------------------------------------------------
def dy(rng, shape, bits=4, lo=-4.0, hi=4.0):
    return np.round(rng.uniform(lo, hi, size=shape) * 2 ** bits) / 2 ** bits


def nonzero(rng, shape):
    s = np.where(rng.random(size=shape) < 0.5, -1.0, 1.0)
    return s * (0.25 + np.round(rng.uniform(0, 3, size=shape) * 16) / 16)


def grid(rng, m, variant=0):
    base = np.arange(m) / 8.0
    if variant == 1:
        base = base.copy()
        # a visible difference, or one of a few units in the last places: any difference makes the sampling points differ
        base[-1] += 1 / 16.0 if rng.uniform() < 0.5 else 2.0 ** -24
    elif variant == 3:
        base = 2.0 * base + 1.0          # another grid with the SAME standardised sampling points
    elif variant == 2:
        base = np.sort(np.unique(np.round(rng.uniform(0, 4, size=4 * m) * 32) / 32))[:m]
        if len(base) < m:
            base = np.arange(m) / 4.0
    return base


def mk_dense(grids, vals):
    from FDApy.representation.functional_data import DenseFunctionalData
    from FDApy.representation.argvals import DenseArgvals
    from FDApy.representation.values import DenseValues
    return DenseFunctionalData(DenseArgvals({f"input_dim_{j}": np.array(g, dtype=float) for j, g in enumerate(grids)}),
                               DenseValues(np.array(vals, dtype=float)))


def mk_irr(obs):
    """obs: list of (grids, values array)"""
    from FDApy.representation.functional_data import IrregularFunctionalData
    from FDApy.representation.argvals import DenseArgvals, IrregularArgvals
    from FDApy.representation.values import IrregularValues
    av = IrregularArgvals({i: DenseArgvals({f"input_dim_{j}": np.array(g, dtype=float) for j, g in enumerate(gs)})
                           for i, (gs, _) in enumerate(obs)})
    va = IrregularValues({i: np.array(v, dtype=float) for i, (_, v) in enumerate(obs)})
    return IrregularFunctionalData(av, va)


def is_dense(x):
    from FDApy.representation.functional_data import DenseFunctionalData
    return isinstance(x, DenseFunctionalData)


def fd_lit(x):
    """Exact Coq literal of a functional-data object."""
    if is_dense(x):
        args = "[" + "; ".join(C.qlist(np.asarray(g, dtype=float)) for g in x.argvals.values()) + "]"
        v = np.asarray(x.values, dtype=float)
        rows = "[" + "; ".join(C.qlist(v[i].ravel()) for i in range(v.shape[0])) + "]"
        return f"(Dense {args} {rows})"
    obs = []
    for lab in x.argvals.keys():
        gs = "[" + "; ".join(C.qlist(np.asarray(g, dtype=float)) for g in x.argvals[lab].values()) + "]"
        obs.append(f"({gs}, {C.qlist(np.asarray(x.values[lab], dtype=float).ravel())})")
    return "(Irreg [" + "; ".join(obs) + "])"


def snapshot(x):
    if is_dense(x):
        return (tuple(np.asarray(g).tobytes() for g in x.argvals.values()), np.asarray(x.values).tobytes(),
                np.asarray(x.values).shape)
    return (tuple(tuple(np.asarray(g).tobytes() for g in x.argvals[k].values()) for k in x.argvals.keys()),
            tuple(np.asarray(x.values[k]).tobytes() for k in x.values.keys()), tuple(x.values.keys()))


def finite(x):
    vs = [np.asarray(x.values)] if is_dense(x) else [np.asarray(v) for v in x.values.values()]
    return all(np.all(np.isfinite(v)) for v in vs)


def describe(x):
    if is_dense(x):
        return {"kind": "dense", "argvals": {k: C.hexf(v) for k, v in x.argvals.items()}, "values": C.hexf(np.asarray(x.values))}
    return {"kind": "irregular", "argvals": {int(k): {d: C.hexf(g) for d, g in x.argvals[k].items()} for k in x.argvals.keys()},
            "values": {int(k): C.hexf(np.asarray(v)) for k, v in x.values.items()}}


def gen_dense(rng, dim, n, pts, gvar=0, divisor=False, gdim=0):
    gdim = gdim % len(pts)
    grids = [grid(rng, m, gvar if j == gdim else 0) for j, m in enumerate(pts)]
    shape = (n,) + tuple(pts)
    return mk_dense(grids, nonzero(rng, shape) if divisor else dy(rng, shape))


def gen_irr(rng, dim, ptss, gvar=0, divisor=False, gat=0, gdim=0):
    """gat / gdim: the curve and the dimension whose grid is the variant `gvar` (negative = from the end)."""
    obs = []
    gat = gat % len(ptss)
    for i, pts in enumerate(ptss):
        grids = [grid(rng, m, gvar if (j == gdim % len(pts) and i == gat) else 0) for j, m in enumerate(pts)]
        obs.append((grids, nonzero(rng, tuple(pts)) if divisor else dy(rng, tuple(pts))))
    return mk_irr(obs)


def gen_pair(rng, case, how):
    """case in dense1d, dense2d, irr1d, irr2d; how in ok / type / nobs / npoints / dim / grid."""
    dim = 2 if case.endswith("2d") else 1
    n = int(rng.integers(1, 4))
    if how == "nobs1shared" and case.startswith("dense"):
        # the single observation is a SUBSET of the other operand (indexing / slicing: the two operands then share
        # their sampling-points object), on either side
        n = int(rng.integers(2, 4))
        pts = [int(rng.integers(2, 5)) for _ in range(dim)]
        whole = gen_dense(rng, dim, n, pts, divisor=True)
        one = whole[int(rng.integers(n))] if rng.integers(2) else whole[0:1]
        return (whole, one) if rng.integers(2) else (one, whole)
    if how == "oksubset":
        # compatible operands that are SUBSETS of bigger datasets (a slice, or an index array in another order): irregular
        # subsets carry the labels of their parents, dense subsets share the parent's sampling points
        n = int(rng.integers(2, 4))
        if case.startswith("dense"):
            pts = [int(rng.integers(2, 5)) for _ in range(dim)]
            fa, fb = gen_dense(rng, dim, n + 1, pts), gen_dense(rng, dim, n + 1, pts, divisor=True)
        else:
            ptss = [[int(rng.integers(2, 5)) for _ in range(dim)] for _ in range(n + 1)]
            if rng.integers(2):
                ptss = [ptss[0]] * (n + 1)            # equal numbers of points: a wrong pairing would go unnoticed by shapes
            fa, fb = gen_irr(rng, dim, ptss), gen_irr(rng, dim, ptss, divisor=True)
        if rng.integers(2):
            return fa[1:], fb[1:]
        perm = np.array([n, 0] + list(range(1, n)))[: n + 1]
        return fa[perm], fb[perm]
    if how in ("nobs1", "nobs1shared"):
        # one side has a single observation: NumPy would broadcast it
        n = int(rng.integers(2, 4))
        if case.startswith("dense"):
            pts = [int(rng.integers(2, 5)) for _ in range(dim)]
            return gen_dense(rng, dim, n, pts), gen_dense(rng, dim, 1, pts, divisor=True)
        ptss = [[int(rng.integers(2, 5)) for _ in range(dim)]] * n
        return gen_irr(rng, dim, ptss), gen_irr(rng, dim, ptss[:1], divisor=True)
    if how == "gridlate":
        # the sampling points differ ONLY in the last curve (irregular) / the last dimension (dense);
        # every curve keeps its number of points
        if case.startswith("dense"):
            pts = [int(rng.integers(2, 5)) for _ in range(dim)]
            return gen_dense(rng, dim, n, pts), gen_dense(rng, dim, n, pts, gvar=1, divisor=True, gdim=-1)
        n = int(rng.integers(2, 4))
        ptss = [[int(rng.integers(2, 5)) for _ in range(dim)] for _ in range(n)]
        return gen_irr(rng, dim, ptss), gen_irr(rng, dim, ptss, gvar=1, divisor=True, gat=-1, gdim=int(rng.integers(dim)))
    if case.startswith("dense"):
        pts = [int(rng.integers(2, 5)) for _ in range(dim)]
        a = gen_dense(rng, dim, n, pts)
        if how == "ok":
            b = gen_dense(rng, dim, n, pts, divisor=True)
        elif how == "type":
            b = gen_irr(rng, dim, [pts] * n, divisor=True)
        elif how == "nobs":
            b = gen_dense(rng, dim, n + 1, pts, divisor=True)
        elif how == "npoints":
            q = list(pts)
            q[-1] += 1
            b = gen_dense(rng, dim, n, q, divisor=True)
        elif how == "dim":
            q = pts + [2] if dim == 1 else pts[:1]
            b = gen_dense(rng, len(q), n, q, divisor=True)
        elif how == "gridaffine":
            b = gen_dense(rng, dim, n, pts, gvar=3, divisor=True)
        else:
            b = gen_dense(rng, dim, n, pts, gvar=1, divisor=True)
        return a, b
    ptss = [[int(rng.integers(2, 5)) for _ in range(dim)] for _ in range(n)]
    a = gen_irr(rng, dim, ptss)
    if how == "ok":
        b = gen_irr(rng, dim, ptss, divisor=True)
    elif how == "type":
        b = gen_dense(rng, dim, n, ptss[0], divisor=True)
    elif how == "nobs":
        b = gen_irr(rng, dim, ptss + [ptss[0]], divisor=True)
    elif how == "npoints":
        q = [list(p) for p in ptss]
        q[-1][-1] += 1
        b = gen_irr(rng, dim, q, divisor=True)
    elif how == "dim":
        q = [p + [2] for p in ptss] if dim == 1 else [p[:1] for p in ptss]
        b = gen_irr(rng, len(q[0]), q, divisor=True)
    elif how == "gridaffine":
        b = gen_irr(rng, dim, ptss, gvar=3, divisor=True)
    else:
        b = gen_irr(rng, dim, ptss, gvar=1, divisor=True)
    return a, b


def parse_bools(s):
    s = s.strip()
    if not (s.startswith("[") and s.endswith("]")):
        raise RuntimeError(f"unexpected model output {s[:200]!r}")
    body = s[1:-1].strip()
    return [] if not body else [x.strip() == "true" for x in body.split(";")]


def rebuild(d):
    """Inverse of describe()."""
    if d["kind"] == "dense":
        return mk_dense([C.unhex(v) for v in d["argvals"].values()], C.unhex(d["values"]))
    labs = sorted(d["argvals"], key=int)
    return mk_irr([([C.unhex(g) for g in d["argvals"][k].values()], C.unhex(d["values"][k])) for k in labs])


def replay_case(rep, col, replay):
    """Re-run one stored case: == and the five operators on (a, b), or `in` / remove on (components, x)."""
    run = C.CoqRun("C12", IMPORTS, shard=10)
    if "components" in replay:
        from FDApy.representation.functional_data import MultivariateFunctionalData
        comps, x = [rebuild(c) for c in replay["components"]], rebuild(replay["x"])
        if replay.get("variant") == "member":
            x = comps[replay["required_removed_index"]]
        t = run.add(f"(model_mem {fd_lit(x)} [" + "; ".join(fd_lit(c) for c in comps) + "])")
        mem = run.run()[t]
        cls, r = classify(lambda: x in MultivariateFunctionalData(list(comps)))
        cls2, _ = classify(lambda: MultivariateFunctionalData(list(comps)).remove(x))
        print(f"replay: model `in` = {mem}; implementation `in` -> class {cls} value {r}; remove -> class {cls2}")
        if cls != 0 or bool(r) != mem or (cls2 == 0) != mem or cls2 not in (0, 2):
            col.add(("replay-mv",), "replayed membership / removal case still disagrees with the model", replay)
        return
    a, b = rebuild(replay["a"]), (rebuild(replay["b"]) if "b" in replay else None)
    if b is None:
        print("replay: scalar case — re-run ./check C12 (deterministic under VERIF_SEED)")
        return
    t = run.add(f"(model_eq {fd_lit(a)} {fd_lit(b)})")
    terms = []
    for name, fn in OPS:
        cls, r = classify(lambda: fn(a, b))
        exact = "true" if name != "Div" else "false"
        terms.append(f"check_binop {name} {exact} (1#1000000000000) a b {cls}%nat {result_lit(cls, r)}")
    t2 = run.add(f"(let a := {fd_lit(a)} in let b := {fd_lit(b)} in [{'; '.join(terms)}])")
    res = run.run(kind="raw")
    model = res[t] == "true"
    cls, r = classify(lambda: a == b)
    oks = parse_bools(res[t2])
    print(f"replay: model == is {model}; implementation == -> class {cls} value {r}; operators agree with the model: {oks}")
    if cls != 0 or bool(r) != model or not all(oks):
        col.add(("replay",), "replayed case still disagrees with the model", replay)
    rep.case(("replay", snapshot(a), snapshot(b)), kind="replay")


def classify(f):
    try:
        return 0, f()
    except TypeError:
        return 1, None
    except ValueError:
        return 2, None
    except Exception as e:  # noqa: BLE001
        return 3, e


def result_lit(cls, r):
    from FDApy.representation.functional_data import GridFunctionalData
    if cls == 0 and isinstance(r, GridFunctionalData) and finite(r):
        return fd_lit(r)
    return "(Irreg [])"


class Collector:
    """Group violations by class; keep the first example of each as the replay."""

    def __init__(self, rep):
        self.rep = rep
        self.seen = {}

    def add(self, cls, what, replay):
        if cls not in self.seen:
            self.seen[cls] = 0
            self.rep.violation(what, replay)
        self.seen[cls] += 1


# --------------------------------------------------------------------------
# arithmetic
# --------------------------------------------------------------------------
def arithmetic(rep, col, rng, quick):
    run = C.CoqRun("C12", IMPORTS, shard=10)
    todo = []
    cases = ["dense1d", "dense2d", "irr1d", "irr2d"]
    hows = ["ok", "nobs1shared", "gridlate", "type", "nobs", "npoints", "dim", "grid", "nobs1", "oksubset", "gridaffine"]
    n_pairs = 48 if quick else 800
    for i in range(n_pairs):
        case, how = cases[i % 4], hows[(i // 4) % len(hows)]
        a, b = gen_pair(rng, case, how)
        sa, sb = snapshot(a), snapshot(b)
        terms, meta = [], []
        for name, fn in OPS:
            cls, r = classify(lambda: fn(a, b))
            ok_struct = True
            if cls == 0:
                ok_struct = (type(r) is type(a)) and (r.argvals == a.argvals) and r.n_obs == a.n_obs and \
                    type(r.values) is type(a.values)
            exact = "true" if name != "Div" else "false"
            terms.append(f"check_binop {name} {exact} (1#1000000000000) a b {cls}%nat {result_lit(cls, r)}")
            meta.append((name, cls, ok_struct, r))
        cls, r = classify(lambda: a // b)
        terms.append(f"check_floordiv (1#1000000000) a b {cls}%nat {result_lit(cls, r)}")
        meta.append(("FloorDiv", cls, True, r))
        t = run.add(f"(let a := {fd_lit(a)} in let b := {fd_lit(b)} in [{'; '.join(terms)}])")
        untouched = snapshot(a) == sa and snapshot(b) == sb
        todo.append((t, case, how, a, b, meta, untouched))
        # float monitors of the identities on compatible pairs
        if how == "ok":
            try:
                s = a + b
                back = s - b
                id1 = (back == a)
                one = (a * 1 == a) and snapshot(a * 1)[1] == sa[1]
                comm = snapshot(a + b)[1] == snapshot(b + a)[1] and snapshot(a * b)[1] == snapshot(b * a)[1]
                c = 1.5
                lhs, rhs = c * (a + b), c * a + c * b
                dist = (lhs == rhs)
                rm = snapshot(2 * a)[1] == snapshot(a * 2)[1]
                bad = [n for n, v in (("(a+b)-b=a", id1), ("a*1=a", one), ("commutativity", comm),
                                      ("c*(a+b)=c*a+c*b", dist), ("c*a=a*c", rm)) if not v]
            except Exception as e:  # noqa: BLE001
                bad = [f"identity monitor raised {type(e).__name__}: {e}"]
            if bad:
                col.add(("identity", tuple(bad)), f"{case}: identities fail on compatible operands: {bad}",
                        {"case": case, "a": describe(a), "b": describe(b), "failed": bad})
    res = run.run(kind="raw")
    for t, case, how, a, b, meta, untouched in todo:
        oks = parse_bools(res[t])
        key = ("pair", case, how, snapshot(a), snapshot(b))
        rep.case(key, nontrivial=True, kind=f"binop/{case}/{how}",
                 sample={"case": case, "how": how, "classes": {m[0]: m[1] for m in meta}, "a": describe(a) if case == "dense1d" else case})
        if not untouched:
            col.add(("mutated", case), f"{case}/{how}: an operand was modified by an operator",
                    {"case": case, "how": how, "a": describe(a), "b": describe(b)})
        for (name, cls, ok_struct, r), ok in zip(meta, oks):
            if cls == 3:
                col.add(("other-exc", name, how), f"{case}/{how}: {name} raised {type(r).__name__}: {r} (neither TypeError nor ValueError)",
                        {"case": case, "how": how, "op": name, "a": describe(a), "b": describe(b)})
            elif not ok:
                rep.disagreements_checked += 1
                exp = {"ok": "a result", "type": "TypeError"}.get(how, "ValueError")
                got = {0: "a result", 1: "TypeError", 2: "ValueError"}[cls]
                col.add(("binop", name, how, cls), f"{case}/{how}: {name} gives {got}; the model requires {exp}"
                        + (" with other values / sampling points" if cls == 0 and how == "ok" else ""),
                        {"case": case, "how": how, "op": name, "a": describe(a), "b": describe(b),
                         "result": describe(r) if cls == 0 and r is not None else got})
            elif not ok_struct:
                col.add(("struct", name, case), f"{case}: result of {name} has another type, argvals or n_obs than the left operand",
                        {"case": case, "op": name, "a": describe(a), "b": describe(b)})


def scalars(rep, col, rng, quick):
    run = C.CoqRun("C12", IMPORTS, shard=10)
    todo = []
    cases = ["dense1d", "dense2d", "irr1d", "irr2d"]
    n = 24 if quick else 300
    for i in range(n):
        case = cases[i % 4]
        a, _ = gen_pair(rng, case, "ok")
        sa = snapshot(a)
        kind = i % 6
        if kind == 0:
            c = int(rng.integers(1, 6)) * (1 if rng.random() < 0.5 else -1)
        elif kind == 1:
            c = float(nonzero(rng, ())[()])
        elif kind == 2:
            c = True
        elif kind == 3:
            c = np.float64(nonzero(rng, ())[()])
        elif kind == 4:
            c = int(rng.integers(1, 4))
        else:
            c = float(np.round(rng.uniform(0.5, 3) * 8) / 8)
        terms, meta = [], []
        for name, fn in OPS:
            cls, r = classify(lambda: fn(a, c))
            ok_struct = cls == 0 and (type(r) is type(a)) and (r.argvals == a.argvals) and type(r.values) is type(a.values)
            exact = "true" if name != "Div" else "false"
            terms.append(f"check_scalar {name} {exact} (1#1000000000000) a {C.qlit(float(c))} {cls}%nat {result_lit(cls, r)}")
            meta.append((name, cls, ok_struct, r))
        cls, r = classify(lambda: a // c)
        terms.append(f"check_floordiv_scalar (1#1000000000) a {C.qlit(float(c))} {cls}%nat {result_lit(cls, r)}")
        meta.append(("FloorDiv", cls, True, r))
        cls, r = classify(lambda: c * a)
        terms.append(f"check_scalar Mul true (1#1000000000000) a {C.qlit(float(c))} {cls}%nat {result_lit(cls, r)}")
        meta.append(("RMul", cls, True, r))
        t = run.add(f"(let a := {fd_lit(a)} in [{'; '.join(terms)}])")
        todo.append((t, case, a, c, meta, snapshot(a) == sa))
        # scalars that are not Python int / float: TypeError or the right answer, nothing else
        for bad in (np.int64(2), np.float32(0.5), "2", None, [1.0], 1 + 0j):
            cls, r = classify(lambda: a + bad)
            if cls == 0:
                okv = isinstance(bad, (np.integer, np.floating)) and type(r) is type(a) and \
                    np.allclose(np.concatenate([np.ravel(v) for v in ([np.asarray(r.values)] if is_dense(r) else r.values.values())]),
                                np.concatenate([np.ravel(v) for v in ([np.asarray(a.values)] if is_dense(a) else a.values.values())]) + float(bad))
                if not okv:
                    col.add(("scalar-accepted", type(bad).__name__), f"a + {bad!r} ({type(bad).__name__}) returned a wrong result",
                            {"a": describe(a), "scalar": repr(bad)})
            elif cls != 1:
                col.add(("scalar-exc", type(bad).__name__, cls), f"a + {bad!r} ({type(bad).__name__}) raised something else than TypeError",
                        {"a": describe(a), "scalar": repr(bad)})
    res = run.run(kind="raw")
    for t, case, a, c, meta, untouched in todo:
        oks = parse_bools(res[t])
        rep.case(("scalar", case, snapshot(a), repr(c)), kind=f"scalar/{case}/{type(c).__name__}",
                 sample={"case": case, "scalar": repr(c), "classes": {m[0]: m[1] for m in meta}})
        if not untouched:
            col.add(("mutated-scalar", case), f"{case}: the dataset was modified by an operation with a scalar",
                    {"a": describe(a), "scalar": repr(c)})
        for (name, cls, ok_struct, r), ok in zip(meta, oks):
            if not ok or cls != 0:
                rep.disagreements_checked += 1
                col.add(("scalar", name, cls), f"{case}: {name} with the scalar {c!r} ({type(c).__name__}) gives "
                        f"{ {0: 'other values / sampling points than the model', 1: 'TypeError', 2: 'ValueError', 3: 'another exception'}[cls] }",
                        {"case": case, "op": name, "a": describe(a), "scalar": repr(c),
                         "result": describe(r) if cls == 0 else cls})
            elif not ok_struct and name not in ("FloorDiv", "RMul"):
                col.add(("struct-scalar", name, case), f"{case}: result of {name} with a scalar has another type or argvals",
                        {"case": case, "op": name, "a": describe(a), "scalar": repr(c)})


# --------------------------------------------------------------------------
# equality, membership, removal
# --------------------------------------------------------------------------
def perturbed(rng, a, how):
    """A dataset related to `a` (never `a` itself)."""
    b = copy.deepcopy(a)
    vals = [b.values] if is_dense(b) else list(b.values.values())
    if how == "copy":
        return b
    if how in ("close", "far", "half-thr", "twice-thr"):
        v = vals[int(rng.integers(len(vals)))]
        idx = tuple(int(rng.integers(s)) for s in v.shape)
        thr = 1e-8 + 1e-5 * abs(float(v[idx]))
        delta = {"close": 1e-9, "far": float(_pick(rng, [1e-3, 0.5, -2.0])), "half-thr": 0.5 * thr, "twice-thr": 2.0 * thr}[how]
        v[idx] = v[idx] + delta
        return b
    if how == "asym":
        # |x - y| lies between atol + rtol|y| and atol + rtol|x|: a == b and b == a must differ (NumPy's formula)
        k = int(rng.integers(len(vals)))
        idx = tuple(int(rng.integers(s)) for s in vals[k].shape)
        y = float(vals[k][idx])
        if abs(y) < 0.25:
            y = 1.0
        thr = 1e-8 + 1e-5 * abs(y)
        vals[k][idx] = y + np.sign(y) * thr * (1 + 0.5e-5)
        a2 = copy.deepcopy(a)
        vals2 = [a2.values] if is_dense(a2) else list(a2.values.values())
        vals2[k][idx] = y
        return a2, b
    raise ValueError(how)


def _pick(rng, xs):
    return xs[int(rng.integers(len(xs)))]


def multi_curve(rng, case):
    """A dataset with at least two observations."""
    while True:
        a, _ = gen_pair(rng, case, "ok")
        if a.n_obs >= 2:
            return a


_LATE = [0]


def late_grid(a):
    """Copy of `a` (same values, same numbers of points) whose sampling points differ ONLY in the last curve
    (irregular) / the last dimension (dense)."""
    b = copy.deepcopy(a)
    if is_dense(b):
        g = list(b.argvals.values())[-1]
    else:
        g = list(b.argvals[list(b.argvals.keys())[-1]].values())[-1]
    _LATE[0] += 1
    g[-1] += 1 / 16.0 if _LATE[0] % 2 else 2.0 ** -24
    return b


def late_values(rng, a):
    """Copy of `a` that differs ONLY in one value of the last observation."""
    b = copy.deepcopy(a)
    v = np.asarray(b.values)[-1] if is_dense(b) else list(b.values.values())[-1]
    idx = tuple(int(rng.integers(s)) for s in v.shape)
    v[idx] = v[idx] + float(_pick(rng, [1e-3, 0.5, -2.0]))
    return b


def nan_coded_equality(rep):
    """Irregular data in the NaN-on-common-grid encoding: a dataset that has an observed sample where the other one has a missing
    one (all common samples equal) is a different dataset — from whichever side the comparison is made; and `in` / remove() on a
    multivariate object follow."""
    from FDApy.representation.functional_data import IrregularFunctionalData, MultivariateFunctionalData
    from FDApy.representation.argvals import DenseArgvals, IrregularArgvals
    from FDApy.representation.values import IrregularValues
    rng = np.random.default_rng([C.seed(), 12, 5])
    t = np.arange(6) / 4.0
    full = np.round(rng.normal(size=(3, 6)) * 16) / 16

    def build(V):
        return IrregularFunctionalData(IrregularArgvals({k: DenseArgvals({"input_dim_0": t.copy()}) for k in range(3)}),
                                       IrregularValues({k: V[k].copy() for k in range(3)}))
    holes = full.copy()
    holes[0, 2] = np.nan
    holes[2, 4] = np.nan
    a, b = build(holes), build(full)
    other = build(full + 1.0)
    res = {}
    for lab, f in (("a == b", lambda: a == b), ("b == a", lambda: b == a), ("b in [other, a]", lambda: b in MultivariateFunctionalData([other, a])),
                   ("a in [other, b]", lambda: a in MultivariateFunctionalData([other, b]))):
        try:
            res[lab] = f()
        except Exception as e:  # noqa: BLE001
            res[lab] = f"raised {type(e).__name__}"
    rep.case(("nan-coded-equality", full.tobytes()), kind="equality/nan-coded")
    bad = [f"{lab} gives {v!r}" for lab, v in res.items() if v is not False and not (isinstance(v, np.bool_) and not v)]
    if bad:
        rep.violation("equality of NaN-coded irregular data that differ in an observed-versus-missing sample must be False from both "
                      "sides: " + "; ".join(bad), {"t": t.tolist(), "full": full.tolist(), "missing_in_a": [[0, 2], [2, 4]]})


def equality(rep, col, rng, quick):
    nan_coded_equality(rep)
    run = C.CoqRun("C12", IMPORTS, shard=48)
    todo = []
    pairs = []
    n = 7 if quick else 120
    for i in range(n):
        for case in ("dense1d", "dense2d", "irr1d", "irr2d"):
            a, _ = gen_pair(rng, case, "ok")
            pairs.append((case, "identity", a, a))
            for how in ("copy", "close", "far", "half-thr", "twice-thr"):
                pairs.append((case, how, a, perturbed(rng, a, how)))
            ya, xb = perturbed(rng, a, "asym")
            pairs.append((case, "asym-close", ya, xb))       # |y - x| <= atol + rtol|x|
            pairs.append((case, "asym-not-close", xb, ya))   # |x - y| >  atol + rtol|y|
            # only a LATER curve differs (first curve identical): in its sampling points, resp. in its values
            am = multi_curve(rng, case)
            lg, lv = late_grid(am), late_values(rng, am)
            pairs.append((case, "late-grid-same-values", am, lg))
            pairs.append((case, "late-grid-same-values-swapped", lg, am))
            pairs.append((case, "late-values-same-grid", am, lv))
            pairs.append((case, "late-values-same-grid-swapped", lv, am))
            for how in ("type", "nobs", "npoints", "dim", "grid", "gridlate", "gridaffine"):
                a2, b2 = gen_pair(rng, case, how)
                pairs.append((case, "shape-" + how, a2, b2))
                if i % 2:
                    pairs.append((case, "shape-" + how + "-swapped", b2, a2))
            # same sampling points, same number of observations, all values different
            a3, b3 = gen_pair(rng, case, "ok")
            pairs.append((case, "same-grid-other-values", a3, b3))
            # more observations that repeat the same curve (broadcastable shapes)
            if case.startswith("dense"):
                v = np.asarray(a.values)
                one = mk_dense(list(a.argvals.values()), v[:1])
                rep3 = mk_dense(list(a.argvals.values()), np.repeat(v[:1], 3, axis=0))
                pairs.append((case, "broadcastable-nobs", rep3, one))
    for case, how, a, b in pairs:
        sa, sb = snapshot(a), snapshot(b)
        cls, r = classify(lambda: a == b)
        isbool = cls == 0 and isinstance(r, (bool, np.bool_))
        cls2, r2 = classify(lambda: a != b)
        t = run.add(f"(model_eq {fd_lit(a)} {fd_lit(b)})")
        todo.append((t, case, how, a, b, cls, r, isbool, cls2, r2, snapshot(a) == sa and snapshot(b) == sb))
    res = run.run()
    for t, case, how, a, b, cls, r, isbool, cls2, r2, untouched in todo:
        model = res[t]
        rep.case(("eq", case, how, snapshot(a), snapshot(b)), kind=f"eq/{case}/{how}",
                 sample={"case": case, "how": how, "model": model, "impl": (bool(r) if isbool else f"class {cls}")})
        info = {"case": case, "how": how, "a": describe(a), "b": describe(b), "required": model}
        if cls != 0:
            rep.disagreements_checked += 1
            col.add(("eq-raises", case.rstrip("12d"), how.replace("-swapped", "")),
                    f"{case}/{how}: `a == b` raised {['', 'TypeError', 'ValueError', type(r).__name__][cls]} instead of returning {model}", info)
        elif not isbool:
            col.add(("eq-notbool", case), f"{case}/{how}: `a == b` returned a {type(r).__name__}, not a bool", info)
        elif bool(r) != model:
            rep.disagreements_checked += 1
            col.add(("eq-wrong", case.rstrip("12d"), how.replace("-swapped", "")),
                    f"{case}/{how}: `a == b` is {bool(r)}; sampling points equal and values close is {model}", info)
        elif cls2 == 0 and bool(r2) == bool(r):
            col.add(("ne", case), f"{case}/{how}: `a != b` and `a == b` are both {bool(r)}", info)
        if not untouched:
            col.add(("eq-mutates", case), f"{case}/{how}: == modified an operand", info)


def membership(rep, col, rng, quick):
    from FDApy.representation.functional_data import MultivariateFunctionalData
    run = C.CoqRun("C12", IMPORTS, shard=10)
    todo = []
    n = 16 if quick else 200
    for i in range(n):
        k = int(rng.integers(1, 5))
        nobs = int(rng.integers(1, 4))
        comps = []
        for j in range(k):
            case = _pick(rng, ["dense1d", "dense1d", "dense2d", "irr1d", "irr2d"])
            if case.startswith("dense"):
                dim = 2 if case.endswith("2d") else 1
                comps.append(gen_dense(rng, dim, nobs, [int(rng.integers(2, 5)) for _ in range(dim)]))
            else:
                dim = 2 if case.endswith("2d") else 1
                comps.append(gen_irr(rng, dim, [[int(rng.integers(2, 5)) for _ in range(dim)] for _ in range(nobs)]))
        if i % 4 == 1 and k >= 2:
            comps[-1] = copy.deepcopy(comps[0])              # an equal (not identical) duplicate
        if i % 4 == 2 and k >= 2 and not is_dense(comps[0]):
            comps[1] = perturbed(rng, comps[0], "far")       # irregular twins with different values
        pos = int(rng.integers(k))
        variants = [("member", comps[pos]), ("copy-of-member", copy.deepcopy(comps[pos])),
                    ("close-to-member", perturbed(rng, comps[pos], "close")),
                    ("far-from-member", perturbed(rng, comps[pos], "far")),
                    ("member-with-other-last-grid", late_grid(comps[pos])),
                    ("member-with-other-last-values", late_values(rng, comps[pos])),
                    ("foreign", gen_dense(rng, 1, nobs + 1, [3]))]
        for vname, x in variants:
            mv = MultivariateFunctionalData(list(comps))
            cls_in, r_in = classify(lambda: x in mv)
            before = list(mv.data)
            cls_rm, _ = classify(lambda: mv.remove(x))
            after = list(mv.data)
            removed = 999
            if cls_rm == 0:
                ids_after = [id(o) for o in after]
                gone = [p for p, o in enumerate(before) if id(o) not in ids_after]
                dup = len(after) == len(before) - 1
                removed = gone[0] if (len(gone) == 1 and dup and [o for o in before if id(o) in ids_after] == after) else 998
            elif cls_rm == 2:
                removed = 999 if [id(o) for o in after] == [id(o) for o in before] else 997
            else:
                removed = 996
            lst = "[" + "; ".join(fd_lit(c) for c in comps) + "]"
            t1 = run.add(f"(let l := {lst} in let x := {fd_lit(x)} in (model_mem x l, model_remove l x))")
            todo.append((t1, vname, comps, x, cls_in, r_in, cls_rm, removed))
    res = run.run(kind="raw")
    import re
    for t, vname, comps, x, cls_in, r_in, cls_rm, removed in todo:
        m = re.match(r"\(\s*(true|false)\s*,\s*\(?\s*(None|Some\s+\d+)(?:%nat)?\s*,\s*(None|Some\s+\d+)(?:%nat)?\s*\)?\s*\)", res[t])
        if not m:
            raise RuntimeError(f"cannot parse model output {res[t]!r}")
        opt = lambda g: 999 if g == "None" else int(g.split()[1])
        mem, idx, rest = m.group(1) == "true", opt(m.group(2)), opt(m.group(3))
        assert (idx == 999) == (rest == 999) and (idx == 999) == (not mem) and (rest == 999 or rest == len(comps) - 1)
        rep.case(("mem", vname, tuple(snapshot(c) for c in comps), snapshot(x)), kind=f"mv/{vname}",
                 sample={"variant": vname, "n_components": len(comps), "model_in": mem, "model_removed_index": idx})
        info = {"variant": vname, "components": [describe(c) for c in comps], "x": describe(x),
                "required_in": mem, "required_removed_index": (None if idx == 999 else idx)}
        kinds = "+".join(sorted({("dense" if is_dense(c) else "irregular") for c in comps}))
        if cls_in != 0:
            rep.disagreements_checked += 1
            col.add(("in-raises", kinds), f"`x in multivariate` raised (class {cls_in}) for a {vname} x; required {mem}", info)
        elif bool(r_in) != mem:
            rep.disagreements_checked += 1
            col.add(("in-wrong", kinds, vname), f"`x in multivariate` is {bool(r_in)} for a {vname} x; required {mem}", info)
        if removed != idx:
            rep.disagreements_checked += 1
            what = {999: "raised ValueError and left the list unchanged", 998: "changed the list in another way than deleting one element",
                    997: "raised ValueError and changed the list", 996: "raised another exception"}.get(removed, f"removed the element at position {removed}")
            col.add(("remove", kinds, vname, min(removed, 996) if removed >= 996 else "pos"),
                    f"multivariate.remove(x) {what} for a {vname} x; required: "
                    + ("ValueError (not in list)" if idx == 999 else f"delete the element at position {idx}"), info)



def neutral_scalars(rep):
    """a * 1, a + 0, a / 1, a - 0, 1 * a ... are results like any other: new objects whose later editing leaves the operand
    untouched (the operand must stay as it was whatever is done with the result)."""
    rng = np.random.default_rng([C.seed(), 12, 41])
    neutral = [("a * 1", lambda a: a * 1), ("a * 1.0", lambda a: a * 1.0), ("1 * a", lambda a: 1 * a), ("a * True", lambda a: a * True),
               ("a / 1", lambda a: a / 1), ("a + 0", lambda a: a + 0), ("a - 0", lambda a: a - 0), ("a + 0.0", lambda a: a + 0.0),
               ("a // 1", lambda a: a // 1)]
    for case in ("dense1d", "dense2d", "irr1d", "irr2d"):
        for name, fn in neutral:
            a, _ = gen_pair(rng, case, "ok")
            sa = snapshot(a)
            cls, r = classify(lambda: fn(a))
            rep.case(("neutral", case, name, sa[1] if is_dense(a) else sa[1][0]), kind=f"neutral-scalar/{case}")
            if cls != 0:
                continue            # refusals are judged by the scalar checks
            bad = []
            if r is a:
                bad.append("the result IS the operand object")
            try:
                arrs = [np.asarray(r.values)] if is_dense(r) else [np.asarray(r.values[k]) for k in r.values.keys()]
                for v in arrs:
                    if v.size and v.flags.writeable:
                        v[...] = v + 1.0
            except Exception:  # noqa: BLE001
                pass
            if snapshot(a) != sa:
                bad.append("editing the values of the result changed the operand")
            if bad:
                rep.violation(f"{name} on {case} data: " + "; ".join(bad) + " (arithmetic must return a new object and leave the "
                              "operands untouched)", {"case": case, "operation": name, "operand": describe(a)})


def run(rep, props, replay=None):
    quick = C.tier() == "quick"
    rng = np.random.default_rng([C.seed(), 12])
    col = Collector(rep)
    if replay is not None:
        replay_case(rep, col, replay)
        return
    from harness import fd as _fd
    _fd.dtype_monitor(rep, rng, {
        "a + a": lambda d: (d + d).values, "a - 2": lambda d: (d - 2).values, "a * a": lambda d: (d * d).values,
        "a / (a * a + 1)": lambda d: (d / (d * d + 1)).values, "a / 4": lambda d: (d / 4).values,
        "3 * a": lambda d: (3 * d).values if hasattr(type(d), "__rmul__") else (d * 3).values,
        "a // (a * a + 1)": lambda d: (d // (d * d + 1)).values}, "arithmetic")
    arithmetic(rep, col, rng, quick)
    scalars(rep, col, rng, quick)
    equality(rep, col, rng, quick)
    membership(rep, col, rng, quick)
    neutral_scalars(rep)
    rep.extra["violation_classes"] = {str(k): v for k, v in col.seen.items()}
