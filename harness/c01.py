"""C01 — FPCA components are ordered, non-negative and the leading ones are kept.

Tie: `_compute_eigen(M, sel)` vs `compute_eigen opsQ (shuffled eigh(M)) sel`
(correct model), and — for the open finding F1 — vs the defect model
`compute_eigen_nosort opsQ (np.linalg.eig(M)) sel` compared EXACTLY.
API level: UFPCA / MFPCA fitted with `sel` vs the model's selection applied to
the implementation's own full (`None`) fit.
"""
from __future__ import annotations

import itertools
import warnings

import numpy as np

from harness import common as C

IMPORTS = "From FDAV Require Import Base.Num Base.Cmp Model.Eigen Tie.C01."
F1 = "F1"
F1_WHAT = ("_compute_eigen keeps the order np.linalg.eig returns: eigenvalues unsorted and "
           "a non-leading component kept for n_components=k (suite pins this output)")


# ---------------------------------------------------------------- generators
def gen_matrices(rng, quick):
    out = []
    out.append(("exact-tie", np.diag([4.0, 2.0, 1.0, 1.0])))      # cumulative ratio 0.5 exactly: fraction 0.5 keeps ONE
    out.append(("exact-tie", np.diag([3.0, 1.0])))                # 0.75 exactly
    spectra3 = [[1, 3, 2], [5, 0.5, 2.25], [4, 1, 0]]
    spectra4 = [[1, 4, 2, 3]] if quick else [[1, 4, 2, 3], [7, 0.25, 3, 1]]
    for sp in spectra3 + spectra4:
        for perm in itertools.permutations(sp):
            out.append(("diag-perm", np.diag(np.array(perm, dtype=float))))
    if not quick:
        for perm in itertools.permutations([9, 1, 5, 3, 7]):
            out.append(("diag-perm", np.diag(np.array(perm, dtype=float))))
    n_rand = 60 if quick else 400
    for i in range(n_rand):
        n = int(rng.integers(2, 9 if quick else 16))
        kind = ["psd", "psd", "rankdef", "indef", "block"][i % 5]
        q, _ = np.linalg.qr(rng.normal(size=(n, n)))
        lam = np.sort(rng.uniform(0.05, 1.0, size=n))[::-1] * (1 + np.arange(n)[::-1])
        lam = lam * rng.choice([1.0, 100.0, 0.01])
        if kind == "rankdef" and n > 2:
            lam[-(n // 2):] = 0.0
        if kind == "indef":
            lam[-1] = -abs(lam[0]) * 1e-3
        rng.shuffle(lam)
        m = (q * lam) @ q.T
        m = (m + m.T) / 2
        if kind == "block" and n >= 4:
            m = np.zeros((n, n))
            h = n // 2
            a = rng.normal(size=(h, h)); b = rng.normal(size=(n - h, n - h))
            m[:h, :h] = a @ a.T
            m[h:, h:] = 3 * b @ b.T
        out.append((kind, m))
    return out


def gen_sels(rng, n, quick):
    sels = [None] + list(range(1, n + 1))
    fr = [0.5, 0.75, 0.8, 0.95, 0.999] + [float(np.round(rng.uniform(0.05, 0.99), 3)) for _ in range(2)]
    sels += fr
    keep = 4 if quick else 9
    if len(sels) > keep + 2 and n > 4:
        idx = sorted(set([0, 1, len(sels) - 1] + list(rng.choice(len(sels), keep, replace=False))))
        sels = [sels[i] for i in idx]
    return sels


def sel_term(s):
    if s is None:
        return "SelAll"
    if isinstance(s, (int, np.integer)):
        return f"(SelCount {int(s)}%nat)"
    return f"(SelFrac {C.qlit(s)})"


def spec_term(vals, vecs):
    """vecs: columns are eigenvectors."""
    return "[" + "; ".join(f"({C.qlit(vals[i])}, {C.qlist(vecs[:, i])})" for i in range(len(vals))) + "]"


def frac_ambiguous(vals_sorted_clipped, p):
    """A cumulative variance ratio within 1e-9 of the requested fraction is ambiguous in floating point —
    unless the tie is EXACT both in rational arithmetic and in the float computation (e.g. diag(4,2,1,1), 0.5)."""
    from fractions import Fraction
    tot = vals_sorted_clipped.sum()
    if tot <= 0:
        return True
    csum = np.cumsum(vals_sorted_clipped)
    cs = csum / tot
    near = np.abs(cs - p) < 1e-9
    if not np.any(near):
        return False
    ftot = sum(Fraction(float(v)) for v in vals_sorted_clipped)
    acc = Fraction(0)
    for v, c, nr in zip(vals_sorted_clipped, cs, near):
        acc += Fraction(float(v))
        if nr and not (acc == Fraction(float(p)) * ftot and c == p):
            return True
    return False


# ---------------------------------------------------------------- units
def unit_monitor(rep):
    """The shared eigen-solver has no absolute scale: a covariance matrix expressed in other units (times a power of two, which
    scales every intermediate exactly) gives the same number of components, the same vectors and eigenvalues times that factor —
    for spectra far below 1 (curves in small units) and far above."""
    from FDApy.misc.utils import _compute_eigen
    rng = np.random.default_rng([C.seed(), 1, 9])
    for i in range(6):
        n = 3 + i % 4
        q, _ = np.linalg.qr(rng.normal(size=(n, n)))
        lam = np.sort(rng.uniform(0.1, 1.0, size=n))[::-1] * (1 + np.arange(n)[::-1])
        m = (q * lam) @ q.T
        m = (m + m.T) / 2
        for sel in (None, 2, 0.8):
            try:
                ev0, vec0 = _compute_eigen(m.copy(), sel)
            except Exception:  # noqa: BLE001
                continue
            ev0, vec0 = np.asarray(ev0, float), np.asarray(vec0, float)
            for e in (-44, -20, 30):
                c = 2.0 ** e
                rep.case(("units", i, repr(sel), e), kind="eigen-solver/units")
                try:
                    ev, vec = _compute_eigen(m.copy() * c, sel)
                    ev, vec = np.asarray(ev, float), np.asarray(vec, float)
                except Exception as ex:  # noqa: BLE001
                    rep.violation(f"_compute_eigen raised {type(ex).__name__} on a matrix in other units (x 2^{e})",
                                  {"level": "helper", "matrix": C.hexf(m * c), "sel": sel})
                    continue
                if ev.shape != ev0.shape or np.max(np.abs(ev - c * ev0)) > 1e-9 * c * float(np.max(np.abs(ev0))) \
                        or vec.shape != vec0.shape or np.max(np.abs(np.abs(vec) - np.abs(vec0))) > 1e-7:
                    rep.violation(f"_compute_eigen(n_components={sel}) on the same matrix times 2^{e}: eigenvalues {ev.tolist()} are not "
                                  f"2^{e} times {ev0.tolist()} (or other vectors): the components kept depend on the unit of the data",
                                  {"level": "helper", "matrix": C.hexf(m * c), "sel": sel, "factor_exponent": e})


# ---------------------------------------------------------------- the translated selection rule
def select_level(rep, rng, quick):
    """_select_number_eigencomponents against its own TRANSLATION (Gen/Select.v, regenerated on this run) executed in Q."""
    from FDApy.misc.utils import _select_number_eigencomponents
    rng = np.random.default_rng([C.seed(), 1, 5])       # its own stream: the datasets of the other levels do not move
    run = C.CoqRun("C01", IMPORTS.replace("Tie.C01.", "Gen.Select Tie.C01."), shard=1)
    todo = []
    for i in range(30 if quick else 300):
        n = int(rng.integers(1, 9))
        evs = np.sort(np.round(rng.uniform(0.01, 4.0, size=n) * 64) / 64)[::-1]
        if i % 5 == 4 and n >= 2:
            evs[-1] = 0.0            # (the total stays positive: the theorem's hypothesis; 0/0 is NaN in the code, 0 in the totalised model)
        sels = [None, int(rng.integers(1, n + 1)), float(np.round(rng.uniform(0.05, 0.99), 3)), 0.5, 1.0, 1.5]
        for sl in sels:
            try:
                k = int(_select_number_eigencomponents(evs.copy(), sl))
            except ValueError:
                k = None
            except Exception as e:  # noqa: BLE001
                rep.violation(f"_select_number_eigencomponents raised {type(e).__name__}: {e}"[:200],
                              {"level": "select", "eigenvalues": C.hexf(evs), "sel": sl})
                continue
            if isinstance(sl, float) and sl < 1 and np.min(np.abs(np.cumsum(evs) / np.sum(evs) - sl)) < 1e-9:
                continue          # a cumulated share within rounding of the fraction: either side is legitimate in floating point
            want = "None" if k is None else f"Some {k}%nat"
            t = run.add(f"match gen_npc opsQ {sel_term(sl)} {C.qlist(evs)}, {want} with Some a, Some b => Nat.eqb a b "
                        f"| None, None => true | _, _ => false end")
            todo.append((t, evs, sl, k))
    try:
        res = run.run()
    except RuntimeError as e:
        rep.notes.append(("translated _select_number_eigencomponents could not be evaluated (Gen/Select.v does not load): " + str(e))[:300])
        return
    for t, evs, sl, k in todo:
        rep.case(("translated-select", evs.tobytes(), repr(sl)), nontrivial=len(evs) >= 2, kind="translated-selection-rule",
                 sample={"level": "select", "n": int(len(evs)), "sel": sl, "impl": k})
        if not res[t]:
            rep.disagreements_checked += 1
            rep.violation(f"translator check: _select_number_eigencomponents(eigenvalues, {sl!r}) returns {k} (None = ValueError) but its "
                          f"Gallina translation evaluated in Q gives something else",
                          {"level": "select", "eigenvalues": C.hexf(evs), "sel": sl, "impl": k})


# ---------------------------------------------------------------- helper level
def helper_level(rep, rng, quick):
    from FDApy.misc.utils import _compute_eigen
    run = C.CoqRun("C01", IMPORTS)
    cases = []
    for kind, m in gen_matrices(rng, quick):
        n = m.shape[0]
        w, v = np.linalg.eigh(m)
        scale = max(1e-300, float(np.max(np.abs(w))))
        order = rng.permutation(n)
        w_sh, v_sh = w[order], v[:, order]
        with warnings.catch_warnings():
            warnings.simplefilter("ignore")
            w2, v2 = np.linalg.eig(m)
        w2, v2 = np.real(w2), np.real(v2)
        ws = np.sort(np.clip(w, 0, None))[::-1]
        for s in gen_sels(rng, n, quick):
            try:
                ev, evec = _compute_eigen(m.copy(), s)
                ev = np.asarray(ev, dtype=float); evec = np.asarray(evec, dtype=float)
                err = None
            except Exception as e:  # noqa: BLE001
                ev = evec = None
                err = type(e).__name__
            case = {"kind": kind, "matrix": C.hexf(m), "sel": s, "error": err}
            if err is not None:
                rep.case((kind, m.tobytes(), s), sample=None, kind=kind)
                rep.violation(f"_compute_eigen raised {err} on a symmetric matrix",
                              {"level": "helper", **case})
                continue
            if isinstance(s, float) and (frac_ambiguous(ws, s) or frac_ambiguous(np.clip(w2, 0, None), s)):
                rep.dist["ambiguous-fraction"] = rep.dist.get("ambiguous-fraction", 0) + 1
                continue
            # are the kept eigenvalues separated from every other eigenvalue?
            k = len(ev)
            gaps_ok = True
            wfull = np.sort(w)[::-1]
            for i in range(min(k, n)):
                others = np.delete(wfull, i)
                if len(others) and np.min(np.abs(others - wfull[i])) < 1e-6 * scale:
                    gaps_ok = False
            tol = 1e-9 * scale + 1e-12
            impl = spec_term(ev, evec) if k else "[]"
            t_ok = run.add(f"cmp_pairs {C.blit(gaps_ok)} {C.qlit(tol)} {C.qlit(max(1e-6, 1e-6))} "
                           f"(compute_eigen opsQ {spec_term(w_sh, v_sh)} {sel_term(s)}) {impl}")
            t_def = run.add(f"cmp_pairs_exact (compute_eigen_nosort opsQ {spec_term(w2, v2)} {sel_term(s)}) {impl}")
            cases.append((case, t_ok, t_def, m, s, ev, evec, w, scale, kind))
    res = run.run()
    for case, t_ok, t_def, m, s, ev, evec, w, scale, kind in cases:
        sample = {"level": "helper", "kind": kind, "n": m.shape[0], "sel": s,
                  "impl_eigenvalues": [float(x) for x in ev]}
        rep.case((kind, m.tobytes(), repr(s)), nontrivial=m.shape[0] >= 2, sample=sample, kind=kind)
        mon = monitors_helper(m, s, ev, evec, w, scale)
        if res[t_ok] and not mon:
            continue
        rep.disagreements_checked += 1
        if res[t_def]:
            rep.known_finding(F1, F1_WHAT, {**case, "impl_eigenvalues": C.hexf(ev)})
            continue
        what = ("implementation agrees with neither the sorted model nor the LAPACK-order defect model"
                if not res[t_ok] else "monitor failed: " + "; ".join(mon))
        rep.violation(what, {"level": "helper", **case, "impl_eigenvalues": C.hexf(ev),
                             "impl_eigenvectors": C.hexf(evec), "monitors": mon,
                             "agrees_correct_model": res[t_ok], "agrees_defect_model": res[t_def]})


def monitors_helper(m, s, ev, evec, w, scale):
    """Direct form of the property on the implementation output."""
    bad = []
    tol = 1e-8 * scale + 1e-12
    if np.any(ev < 0):
        bad.append("negative eigenvalue reported")
    if np.any(np.diff(ev) > tol):
        bad.append("eigenvalues not non-increasing")
    ws = np.sort(np.clip(w, 0, None))[::-1]
    k = len(ev)
    if k > len(ws) or np.max(np.abs(ev - ws[:k]), initial=0) > tol:
        bad.append("kept eigenvalues are not the k largest of the spectrum")
    # pairing: each column is an eigenvector for its eigenvalue (unclipped ones)
    for i in range(k):
        if ev[i] > 0:
            r = np.linalg.norm(m @ evec[:, i] - ev[i] * evec[:, i])
            if r > 1e-7 * scale * max(1.0, np.linalg.norm(evec[:, i])):
                bad.append(f"column {i} is not an eigenvector for eigenvalue {i}")
                break
    if isinstance(s, (int, np.integer)) and k != min(int(s), m.shape[0]):
        bad.append("wrong number of components")
    if isinstance(s, float):
        tot = ws.sum()
        if tot > 0:
            cs = np.cumsum(ws) / tot
            want = int(np.sum(cs < s)) + 1
            if k != want and not np.any(np.abs(cs - s) < 1e-9):
                bad.append(f"fraction rule kept {k} components, smallest leading set has {want}")
    return bad


# ---------------------------------------------------------------- API level
def make_dense(rng, n, m, grid, rough):
    from FDApy.representation.functional_data import DenseFunctionalData
    from FDApy.representation.argvals import DenseArgvals
    from FDApy.representation.values import DenseValues
    if grid == "uniform":
        t = np.linspace(0, 1, m)
    elif grid == "nonuniform":
        t = np.sort(np.unique(np.round(rng.uniform(0, 1, size=m) * 256) / 256))
        t = np.concatenate([[0.0], t[(t > 0) & (t < 1)], [1.0]])
    else:
        t = np.linspace(1, 365, m)
    m = len(t)
    u = (t - t[0]) / (t[-1] - t[0])
    nb = 7 if rough else 3
    basis = [np.ones(m)] + [f(2 * np.pi * (j // 2 + 1) * u) for j, f in
                            zip(range(nb - 1), itertools.cycle([np.sin, np.cos]))]
    basis = np.array(basis)
    sd = rng.uniform(0.2, 2.0, size=nb) if rough else np.sqrt(np.linspace(2, 0.2, nb))
    x = (rng.normal(size=(n, nb)) * sd) @ basis + 0.05 * rng.normal(size=(n, m))
    return DenseFunctionalData(DenseArgvals({"input_dim_0": t}), DenseValues(x))


def api_fit(kind, method, data, s, default_exp=False):
    from FDApy.preprocessing.dim_reduction.ufpca import UFPCA
    from FDApy.preprocessing.dim_reduction.mfpca import MFPCA
    from FDApy.representation.functional_data import IrregularFunctionalData
    with warnings.catch_warnings():
        warnings.simplefilter("ignore")
        if kind == "UFPCA":
            f = UFPCA(n_components=s, method=method)
            if isinstance(data, IrregularFunctionalData):
                f.fit(data, method_smoothing="LP", kwargs_mean={"bandwidth": 0.4}, kwargs_covariance={"bandwidth": 0.4})
            else:
                f.fit(data, method_smoothing=None)
            ef = np.asarray(f.eigenfunctions.values)
            api_fit.scores = _natural_scores(f, "NumInt" if method == "covariance" else "InnPro")
            return np.asarray(f.eigenvalues, dtype=float), ef.reshape(ef.shape[0], -1)
        # default_exp: the optional size of the univariate expansions is left to its default
        f = MFPCA(n_components=s, method=method,
                  univariate_expansions=[({"method": "UFPCA"} if default_exp else {"method": "UFPCA", "n_components": 3})
                                         for _ in data.data])
        f.fit(data, method_smoothing=None)
        parts = []
        for c in f.eigenfunctions.data:
            a = np.asarray(c.coefficients if hasattr(c, "coefficients") else c.values)
            parts.append(a.reshape(a.shape[0], -1))
        api_fit.scores = _natural_scores(f, "NumInt" if method == "covariance" else "InnPro")
        return np.asarray(f.eigenvalues, dtype=float), np.hstack(parts)


def _natural_scores(f, how):
    """scores of the training data by the estimator's natural method, or None where it is not defined"""
    try:
        sc = np.asarray(f.transform(None, method=how), float)
        return sc if sc.ndim == 2 and np.all(np.isfinite(sc)) else None
    except Exception:  # noqa: BLE001
        return None


def score_pairing_monitor(rep, kind, method, s, val, full_val, sc, full_sc, sample):
    """every score column stays paired with its eigenvalue: when the k-fit's eigenvalues are the first k of the full fit
    (and simple), its score columns are the first k score columns of the full fit, up to sign"""
    if sc is None or full_sc is None:
        return
    k = len(val)
    if k == 0 or k > len(full_val) or sc.shape != (full_sc.shape[0], k) or full_sc.shape[1] < k:
        return
    scale = float(np.max(np.abs(full_val)))
    if scale <= 0 or np.max(np.abs(val - full_val[:k])) > 1e-8 * scale:
        return                                  # another subset was kept (F1): decided by the main comparison
    gaps = np.abs(np.diff(np.concatenate([full_val[:k], full_val[k:k + 1]])))
    if len(gaps) and np.min(gaps) < 1e-6 * scale:
        return                                  # (nearly) repeated eigenvalue: the directions are not determined
    ss = max(1e-300, float(np.max(np.abs(full_sc))))
    rep.dist[f"score-pairing/{kind}/{method}"] = rep.dist.get(f"score-pairing/{kind}/{method}", 0) + 1
    for j in range(k):
        if val[j] <= 1e-10 * scale:
            continue
        dev = min(float(np.max(np.abs(sc[:, j] - full_sc[:, j]))), float(np.max(np.abs(sc[:, j] + full_sc[:, j]))))
        if dev > 1e-6 * ss:
            rep.violation(f"{kind}({method}) n_components={s}: score column {j} is not the score column of eigenvalue {j} of the full "
                          f"fit (max deviation {dev:.3g}, up to sign)", {**sample, "score_column": j})
            return


def refit_monitor(rep, rng, data, n, m, grid):
    """the selection rule is a property of the estimator's configuration: an estimator created with a fraction (or with
    None) and fitted on ANOTHER dataset first keeps, on this dataset, exactly what a fresh estimator keeps"""
    from FDApy.preprocessing.dim_reduction.ufpca import UFPCA
    other = make_dense(rng, n + 3, m + 4, "uniform", True)
    for method in ("covariance", "inner-product"):
        for s in (0.9, 0.5, None):
            with warnings.catch_warnings():
                warnings.simplefilter("ignore")
                fresh = UFPCA(n_components=s, method=method); fresh.fit(data, method_smoothing=None)
                used = UFPCA(n_components=s, method=method); used.fit(other, method_smoothing=None)
                used.fit(data, method_smoothing=None)
                back = UFPCA(n_components=s, method=method); back.fit(data, method_smoothing=None)
                back.fit(other, method_smoothing=None)
                from harness import fd as _fd
                gx = np.asarray(data.argvals["input_dim_0"], float)
                twin = _fd.dense(gx, np.asarray(data.values, float)[::-1] * 0.5 + 3.0 + np.cos(gx)[None, :])
                same = UFPCA(n_components=s, method=method); same.fit(twin, method_smoothing=None)
                same.fit(data, method_smoothing=None)
            e0, e3 = np.asarray(fresh.eigenvalues, float), np.asarray(same.eigenvalues, float)
            if e0.shape != e3.shape or not np.array_equal(e0, e3, equal_nan=True):
                rep.violation(f"UFPCA({method}, n_components={s}) fitted on this dataset after other curves on the SAME grid: eigenvalues "
                              f"{[float(v) for v in e3[:4]]}..., a fresh estimator gives {[float(v) for v in e0[:4]]}...",
                              {"level": "api", "estimator": "UFPCA", "method": method, "sel": s, "grid": grid,
                               "data_values": C.hexf(np.asarray(data.values))})
            with warnings.catch_warnings():
                warnings.simplefilter("ignore")
                fresh_o = UFPCA(n_components=s, method=method); fresh_o.fit(other, method_smoothing=None)
            rep.dist["refit/selection"] = rep.dist.get("refit/selection", 0) + 1
            for lab, a_, b_ in (("this dataset after another one", fresh, used), ("a bigger dataset after this one", fresh_o, back)):
                e1, e2 = np.asarray(a_.eigenvalues, float), np.asarray(b_.eigenvalues, float)
                if e1.shape != e2.shape or not np.array_equal(e1, e2, equal_nan=True):
                    rep.violation(f"UFPCA({method}, n_components={s}) fitted on {lab}: keeps {len(e2)} components "
                                  f"{[float(v) for v in e2[:4]]}..., a fresh estimator keeps {len(e1)} {[float(v) for v in e1[:4]]}... "
                                  f"(the configured selection rule is not what is applied at the second fit)",
                                  {"level": "api", "estimator": "UFPCA", "method": method, "sel": s, "grid": grid,
                                   "data_values": C.hexf(np.asarray(data.values)), "other_values": C.hexf(np.asarray(other.values))})
                    break


def mfpca_pairing_monitor(rep, data, default_exp):
    """MFPCA(covariance): the eigenfunction reported with eigenvalue k is built from THE eigenvector of eigenvalue k, every
    component from its own block of it: the reported eigenfunctions are then orthonormal in the product space and
    inverse_transform of the k-th unit score vector is mean + that eigenfunction."""
    from FDApy.preprocessing.dim_reduction.mfpca import MFPCA
    K = 3
    with warnings.catch_warnings():
        warnings.simplefilter("ignore")
        f = MFPCA(n_components=K, method="covariance",
                  univariate_expansions=[({"method": "UFPCA"} if default_exp else {"method": "UFPCA", "n_components": 3})
                                         for _ in data.data])
        try:
            f.fit(data, method_smoothing=None)
        except ModuleNotFoundError:
            return          # a basis Gram matrix that is not numerically positive definite needs an optional dependency (statsmodels)
        E = [np.asarray(c.values, float) for c in f.eigenfunctions.to_grid().data]
        grids = [np.asarray(c.argvals["input_dim_0"], float) for c in data.data]
        nus = np.asarray(f.eigenvalues, float)
    if len(nus) != K or not all(np.all(np.isfinite(e)) for e in E):
        return
    G = sum(np.array([[np.trapz(E[p][j] * E[p][k], grids[p]) for k in range(K)] for j in range(K)]) for p in range(len(E)))
    rep.dist[f"mfpca-pairing/P={len(E)}"] = rep.dist.get(f"mfpca-pairing/P={len(E)}", 0) + 1
    if np.max(np.abs(G - np.eye(K))) > 1e-6:
        rep.violation(f"MFPCA(covariance) on {len(E)} components: the eigenfunctions reported with the eigenvalues are not the "
                      f"orthonormal product-space eigenfunctions (max deviation of their Gram matrix from the identity "
                      f"{np.max(np.abs(G - np.eye(K))):.3g}): a component is not built from its own block of the eigenvector",
                      {"level": "api", "estimator": "MFPCA", "n_components": K, "n_functional": len(E),
                       "data_values": [C.hexf(np.asarray(c.values)) for c in data.data]})


def mfpca_nested_monitor(rep, data):
    """MFPCA with the size of the univariate expansions left to its default: asking for k components gives the first k of
    what asking for k + 1 gives (both are the first entries of one and the same full decomposition) — judged without the
    full fit, which may need an optional dependency when every univariate component is kept."""
    fits = {}
    for method in ("covariance", "inner-product"):
        for k in (1, 2, 3):
            try:
                fits[(method, k)] = api_fit("MFPCA", method, data, k, default_exp=True)
            except Exception:  # noqa: BLE001
                fits[(method, k)] = None
        for k in (1, 2):
            a_, b_ = fits[(method, k)], fits[(method, k + 1)]
            if a_ is None or b_ is None or len(a_[0]) != k or len(b_[0]) != k + 1:
                continue
            scale = float(np.max(np.abs(b_[0])))
            if scale <= 0 or not (np.all(np.isfinite(a_[1])) and np.all(np.isfinite(b_[1]))):
                continue
            if np.any(np.diff(b_[0]) > 0):
                continue            # unsorted spectrum: finding F1, decided by the main comparison
            rep.case(("mfpca-nested", method, k, np.asarray(data.data[0].values).tobytes()), kind=f"MFPCA-default-expansions/{method}")
            fsc = max(1.0, float(np.max(np.abs(b_[1]))))
            dev_v = float(np.max(np.abs(a_[0] - b_[0][:k])))
            if a_[1].shape[1] != b_[1].shape[1]:
                rep.violation(f"MFPCA({method}), default univariate expansion sizes: the eigenfunctions of the n_components={k} fit live in "
                              f"a univariate expansion of another size ({a_[1].shape[1]} coefficients) than those of the n_components={k + 1} "
                              f"fit ({b_[1].shape[1]}): the two are not prefixes of one full decomposition",
                              {"level": "api", "estimator": "MFPCA", "method": method, "k": k,
                               "data_values": [C.hexf(np.asarray(c.values)) for c in data.data]})
                continue
            dev_f = max(min(float(np.max(np.abs(a_[1][j] - b_[1][j]))), float(np.max(np.abs(a_[1][j] + b_[1][j])))) for j in range(k))
            if dev_v > 1e-8 * scale or dev_f > 1e-6 * fsc:
                rep.violation(f"MFPCA({method}), default univariate expansion sizes: n_components={k} does not return the first {k} "
                              f"entries of what n_components={k + 1} returns (eigenvalues differ by {dev_v:.3g}, eigenfunctions by "
                              f"{dev_f:.3g}): the k-fit is not a prefix of one full decomposition",
                              {"level": "api", "estimator": "MFPCA", "method": method, "k": k,
                               "eigenvalues_k": a_[0].tolist(), "eigenvalues_k_plus_1": b_[0].tolist(),
                               "data_values": [C.hexf(np.asarray(c.values)) for c in data.data]})


def mfpca_2d_monitor(rep):
    """MFPCA on a curve component and an IMAGE component (square grid, non-symmetric images), both methods: score column k is the
    projection of the centred observations on eigenfunction k (sum over the components of the L2 inner products) — i.e. the
    eigenfunction reported in place k, with its axes in the order of the data, is the one its score column and eigenvalue belong to."""
    from FDApy.preprocessing.dim_reduction.mfpca import MFPCA
    from harness import fd as _fd
    rng = np.random.default_rng([C.seed(), 1, 11])
    n = 9
    x = np.linspace(0, 1, 9)
    g = np.array([0.0, 0.2, 0.45, 0.7, 1.0])
    lat = np.round(rng.normal(size=(n, 3)) * np.array([2.0, 1.0, 0.5]) * 16) / 16
    X1 = lat @ np.array([np.sin(np.pi * x), np.cos(np.pi * x), x]) + 0.01 * rng.normal(size=(n, 9))
    B = np.array([np.outer(np.sin(np.pi * g), g ** 2), np.outer(g, np.cos(2 * g)), np.outer(np.ones(5), g)])
    X2 = np.einsum("nk,kij->nij", lat, B) + 0.01 * rng.normal(size=(n, 5, 5))
    for method, how in (("inner-product", "InnPro"), ("covariance", "NumInt")):
        data = _fd.multivariate([_fd.dense(x, X1), _fd.dense([g, g], X2)])
        try:
            with warnings.catch_warnings():
                warnings.simplefilter("ignore")
                kw = {} if method == "inner-product" else {"univariate_expansions": [{"method": "UFPCA", "n_components": 3},
                                                                                      {"method": "UFPCA", "n_components": 3}]}
                f = MFPCA(n_components=2, method=method, **kw)
                f.fit(data, method_smoothing=None) if method == "inner-product" else f.fit(data)
                E = [np.asarray(c.values, float) for c in f.eigenfunctions.to_grid().data] if method == "covariance" \
                    else [np.asarray(c.values, float) for c in f.eigenfunctions.data]
                sc = np.asarray(f.transform(method=how), float)
        except Exception as e:  # noqa: BLE001
            rep.notes.append(f"MFPCA({method}) on curve + image components raised {type(e).__name__}: {e}"[:160]) if len(rep.notes) < 12 else None
            continue
        if len(E) != 2 or E[0].shape != (2, 9) or E[1].shape != (2, 5, 5) or sc.shape != (n, 2) or not np.all(np.isfinite(sc)):
            rep.violation(f"MFPCA({method}) on a curve and an image component: eigenfunctions / scores have shapes "
                          f"{[e.shape for e in E]} / {sc.shape}", {"level": "api", "estimator": "MFPCA", "method": method,
                                                                 "data_values": [C.hexf(X1), C.hexf(X2)]})
            continue
        c1, c2 = X1 - X1.mean(axis=0), X2 - X2.mean(axis=0)
        rep.case(("mfpca-2d", method, X2.tobytes()), kind=f"MFPCA-image-component/{method}")
        for k in range(2):
            proj = np.trapz(c1 * E[0][k][None], x, axis=1) + np.trapz(np.trapz(c2 * E[1][k][None], g, axis=2), g, axis=1)
            r = abs(float(np.corrcoef(proj, sc[:, k])[0, 1]))
            if not r > 0.99:
                rep.violation(f"MFPCA({method}) on a curve and an image component: score column {k} is not the projection of the centred "
                              f"observations on eigenfunction {k} (|correlation| {r:.3f}): eigenfunction {k} is not the one its score column "
                              f"and eigenvalue belong to (image axes swapped?)",
                              {"level": "api", "estimator": "MFPCA", "method": method, "component": k,
                               "data_values": [C.hexf(X1), C.hexf(X2)]})
                break


def pairing_monitor(rep, data, val, fun, s, grid):
    """Each eigenfunction stays paired with ITS eigenvalue: C (w . phi_k) = lambda_k phi_k (covariance method); and each
    NumInt score column with ITS eigenfunction: column k is the projection of the centred curves on eigenfunction k, integrated
    over the sampling points themselves (domains of any length)."""
    from FDApy.misc.utils import _integration_weights
    x = np.asarray(data.argvals["input_dim_0"], float)
    sc = getattr(api_fit, "scores", None)
    Xv = np.asarray(data.values, float)
    if sc is not None and sc.shape == (Xv.shape[0], len(val)) and np.all(np.isfinite(fun)):
        proj = np.array([np.trapz((Xv - Xv.mean(axis=0)) * fun[k][None, :], x, axis=1) for k in range(len(val))]).T
        ps = max(1e-300, float(np.max(np.abs(proj))))
        dev = float(np.max(np.abs(np.abs(proj) - np.abs(sc))))
        if dev > 1e-6 * ps:
            rep.violation(f"UFPCA(covariance) n_components={s}: the NumInt score columns are not the projections of the centred curves on "
                          f"the eigenfunctions paired with them, integrated over the sampling points (max deviation {dev:.3g}, "
                          f"domain length {float(np.ptp(x)):g})",
                          {"level": "api", "grid": grid, "sel": s, "eigenvalues": [float(v) for v in val],
                           "data_values": C.hexf(Xv), "grid_points": C.hexf(x)})
            return
    w = _integration_weights(x, method="trapz")
    with warnings.catch_warnings():
        warnings.simplefilter("ignore")
        Csurf = np.asarray(data.covariance().values)[0]
    cs = max(1e-300, float(np.max(np.abs(Csurf))))
    for k in range(len(val)):
        phi = fun[k]
        if not np.all(np.isfinite(phi)):
            continue
        r = Csurf @ (w * phi) - val[k] * phi
        if np.max(np.abs(r)) > 1e-7 * cs * max(1.0, float(np.max(np.abs(phi)))) * max(1.0, np.ptp(x)):
            rep.violation(f"UFPCA(covariance) n_components={s}: eigenfunction {k} is not paired with eigenvalue {k} "
                          f"(integral eigen-equation residual {np.max(np.abs(r)):.3g})",
                          {"level": "api", "grid": grid, "sel": s, "eigenvalues": [float(v) for v in val],
                           "data_values": C.hexf(np.asarray(data.values))})
            return


def api_level(rep, rng, quick):
    from FDApy.representation.functional_data import MultivariateFunctionalData
    run = C.CoqRun("C01", IMPORTS)
    cases = []
    n_data = 10 if quick else 40
    for i in range(n_data):
        n = int(rng.integers(4, 9 if quick else 20))
        m = int(rng.integers(5, 10 if quick else 30))
        if i >= n_data - 2:
            n, m = (40, 9) if i % 2 else (12, 9)       # many rough curves on few points: eig returns unsorted spectra
        grid = ["uniform", "nonuniform", "doy"][i % 3]
        rough = (i % 2 == 0)
        if i == n_data - 4:
            n = 30
        kind = "UFPCA" if i % 4 != 3 else "MFPCA"
        if kind == "UFPCA" and i == 1:
            dd = make_dense(rng, n, max(m, 8), "uniform", rough)
            tt = np.asarray(dd.argvals["input_dim_0"]); XX = np.asarray(dd.values)
            mk = rng.uniform(size=XX.shape) < 0.85
            mk[:, [0, -1]] = True
            from harness import fd as _fd
            data = _fd.irregular([tt[mk[k]] for k in range(n)], [XX[k][mk[k]] for k in range(n)])
            grid = "irregular"
        elif kind == "UFPCA" and i == n_data - 4:
            # fewer grid points than observations and variation in every direction: rank = n_points, so k = rank = n_points occurs
            from harness import fd as _fd
            gx = np.array([0.0, 0.2, 0.45, 0.7, 1.0])
            data = _fd.dense(gx, 2.0 * rng.normal(size=(n, 1)) + rng.normal(size=(n, len(gx))))
            grid = "nonuniform"
        elif kind == "UFPCA":
            data = make_dense(rng, n, m, grid, rough)
        else:
            comps_mv = [make_dense(rng, n, m, grid, rough), make_dense(rng, n, m + 1, "uniform", not rough)]
            if i % 8 == 3:
                comps_mv.append(make_dense(rng, n, m + 3, "nonuniform", rough))      # three components of different sizes
            data = MultivariateFunctionalData(comps_mv)
            mfpca_pairing_monitor(rep, data, default_exp=(i % 8 == 7))
            mfpca_nested_monitor(rep, data)
        if kind == "UFPCA" and grid != "irregular":
            refit_monitor(rep, rng, data, n, m, grid)
        for method, dexp in [(mt, de) for de in ((False, True) if kind == "MFPCA" else (False,)) for mt in ("covariance", "inner-product")]:
            try:
                full_val, full_fun = api_fit(kind, method, data, None, default_exp=dexp)
                full_sc = api_fit.scores
            except Exception as e:  # noqa: BLE001
                rep.notes.append(f"{kind}/{method} full fit raised {type(e).__name__}: {e}"[:200])
                continue
            if not (np.all(np.isfinite(full_val)) and np.all(np.isfinite(full_fun))):
                # sqrt(0) eigenvalue division in the inner-product route with all components: skip pairs
                good = np.isfinite(full_fun).all(axis=1) & np.isfinite(full_val)
            else:
                good = np.ones(len(full_val), dtype=bool)
            if kind == "UFPCA" and method == "covariance" and grid != "irregular":
                pairing_monitor(rep, data, full_val, full_fun, None, grid)
            rank = int(np.sum(full_val > 1e-10 * max(1e-300, full_val.max())))
            sels = [1, 2, max(1, min(rank, 3)), max(1, rank), 0.6, 0.9, 0.99]          # incl. the boundary k = rank
            if not quick:
                sels += list(range(1, rank + 1)) + [float(np.round(rng.uniform(0.1, 0.995), 3)) for _ in range(3)]
            for s in sels:
                if isinstance(s, int) and s > rank:
                    continue
                try:
                    val, fun = api_fit(kind, method, data, s, default_exp=dexp)
                except ModuleNotFoundError as e:
                    rep.notes.append(f"{kind}/{method} n_components={s} needs an optional dependency: {e}"[:160]) if len(rep.notes) < 12 else None
                    continue
                except Exception as e:  # noqa: BLE001
                    rep.violation(f"{kind}({method}) with n_components={s} raised {type(e).__name__}",
                                  {"level": "api", "estimator": kind, "method": method, "sel": s,
                                   "values": C.hexf(np.asarray(data.values if kind == 'UFPCA' else data.data[0].values))})
                    continue
                k = len(val)
                if kind == "UFPCA" and method == "covariance" and grid != "irregular":
                    pairing_monitor(rep, data, val, fun, s, grid)
                score_pairing_monitor(rep, kind, method, s, val, full_val, api_fit.scores, full_sc,
                                      {"level": "api", "estimator": kind, "method": method, "grid": grid, "sel": s})
                if k > len(full_val) or not good[:max(k, 1)].all() or not good.all():
                    # NaN eigenfunctions (division by sqrt(0)) are a C02/C03 matter; compare values only
                    fv = np.where(np.isfinite(full_fun), full_fun, 0.0); fn = np.where(np.isfinite(fun), fun, 0.0)
                else:
                    fv, fn = full_fun, fun
                if isinstance(s, float):
                    srt = np.sort(full_val)[::-1]
                    if frac_ambiguous(srt, s) or frac_ambiguous(full_val, s):
                        continue
                scale = float(np.max(np.abs(full_val)))
                tol = 1e-8 * scale + 1e-12
                ftol = 1e-6 * max(1.0, float(np.max(np.abs(fv))))
                full_t = spec_term(full_val, fv.T)
                impl_t = spec_term(val, fn.T)
                t_ok = run.add(f"cmp_pairs true {C.qlit(tol)} {C.qlit(ftol)} "
                               f"(api_select opsQ {full_t} {sel_term(s)}) {impl_t}")
                t_def = run.add(f"cmp_pairs true {C.qlit(tol)} {C.qlit(ftol)} "
                                f"(api_select_nosort opsQ {full_t} {sel_term(s)}) {impl_t}")
                cases.append((kind, method, grid, rough, s, val, full_val, t_ok, t_def, data))
    res = run.run()
    for kind, method, grid, rough, s, val, full_val, t_ok, t_def, data in cases:
        key = (kind, method, grid, rough, repr(s), full_val.tobytes())
        sample = {"level": "api", "estimator": kind, "method": method, "grid": grid, "rough": rough,
                  "sel": s, "impl_eigenvalues": [float(x) for x in val],
                  "full_fit_eigenvalues": [float(x) for x in full_val]}
        rep.case(key, sample=sample, kind=f"{kind}/{method}")
        scale = float(np.max(np.abs(full_val)))
        mon = []
        if np.any(val < 0):
            mon.append("negative eigenvalue reported")
        if np.any(np.diff(val) > 1e-8 * scale):
            mon.append("eigenvalues not non-increasing")
        if np.any(np.diff(full_val) > 1e-8 * scale):
            mon.append("full decomposition not non-increasing")
        if res[t_ok] and not mon:
            continue
        rep.disagreements_checked += 1
        if res[t_def]:
            rep.known_finding(F1, F1_WHAT, sample)
            continue
        vals = (np.zeros(1) if grid == "irregular" else data.values) if kind == "UFPCA" else [c.values for c in data.data]
        rep.violation(f"{kind}({method}) n_components={s}: not the leading components of its own full fit"
                      + ("; " + "; ".join(mon) if mon else ""),
                      {**sample, "agrees_correct_model": res[t_ok], "agrees_defect_model": res[t_def],
                       "data_values": C.hexf(vals) if kind == "UFPCA" else [C.hexf(v) for v in vals]})


# ---------------------------------------------------------------- entry
def run(rep, props, replay=None):
    quick = C.tier() == "quick"
    rng = np.random.default_rng([C.seed(), 1])
    if replay is not None:
        return replay_case(rep, replay)
    helper_level(rep, rng, quick)
    select_level(rep, rng, quick)
    unit_monitor(rep)
    mfpca_2d_monitor(rep)
    api_level(rep, rng, quick)


def replay_case(rep, rp):
    from FDApy.misc.utils import _compute_eigen
    if rp.get("level") == "helper":
        m = C.unhex(rp["matrix"])
        s = rp["sel"]
        ev, evec = _compute_eigen(m.copy(), s)
        w = np.linalg.eigh(m)[0]
        mon = monitors_helper(m, s, np.asarray(ev, float), np.asarray(evec, float), w, float(np.max(np.abs(w))))
        print("replay helper: eigenvalues", ev, "monitors:", mon)
        rep.case(("replay",), sample={"replay": rp.get("what")})
        if mon:
            rep.violation("replay: " + "; ".join(mon), rp)
    else:
        print("replay of API-level cases: re-run ./check C01 (deterministic under VERIF_SEED)")


RULE = ("helper level: every permutation of 3-5 element spectra on a diagonal, exact-tie spectra, random PSD / rank-deficient / "
        "slightly indefinite / block matrices x n_components in {None, 1..n, fractions}; API level: UFPCA and MFPCA, "
        "both methods, uniform / non-uniform / day-of-year grids, smooth and rough curves. A case is non-trivial "
        "when the matrix has >= 2 eigenvalues; distinct = distinct (matrix, selection).")
ASSUME = ["exact-arithmetic model; LAPACK is an oracle whose output order is arbitrary",
          "eigenvalue comparison tolerance 1e-9*scale; eigenvectors compared up to sign only for separated eigenvalues",
          "fractions within 1e-9 of a cumulative variance ratio are skipped as ambiguous"]
