"""C15 — irregular data mean what they contain, however they are encoded.

Two encodings of the same abstract content (per curve, the observed (t, y) pairs):
  * NaN on a common grid — built by the REAL sparsifier `_sparsify_univariate_data`
    (its random mask generator is replaced by the mask the case prescribes);
  * per-curve sampling points — built by the REAL CSV loader `read_csv` whenever the
    grid is made of integers (the loader takes abscissae from integer column headers),
    and by hand (same structure, float abscissae) for every grid.
Model side (Coq, `Model/Encoding.v` at Q): both producers' outputs must be exactly
`enc_nan grid content` / `enc_ragged content`, `to_long` of either must be the long
format of the content, irregular results (center, arithmetic) must decode to the same
content.  Numeric results (mean, smooth, norm, ...) are compared between the
encodings directly (differential), with NaN-freeness, and with the dense twin when
nothing is missing.

Open finding F14 (P-spline mean of irregular data = smoothed LAST observation per grid
point): mean / center / covariance / inner_product with method_smoothing="PS" are judged
against two reference computations that feed the REAL `PSplines` smoother (property C05)
with a layout of the long table on the grid — the CORRECT pooled layout (mean of the
observations at a point, weight = their number) and the DEFECT layout (last observation,
weight 1, weight 0 where it is exactly 0).  Both layouts are checked against the Coq
model (`format_pooled` / `format_last`).  Correct model first; F14 only if every encoding
equals the defect model to 1e-9; anything else is a violation.
"""
from __future__ import annotations

import itertools
import os
import tempfile
import warnings

import numpy as np

from harness import common as C
from harness import fd

IMPORTS = "From FDAV Require Import Base.Cmp Model.Encoding Tie.C15."


# ---------------------------------------------------------------- literals
def oq(v):
    return "None" if (v != v) else f"(Some {C.qlit(v)})"


def rows_lit(rows):
    return "[" + "; ".join("[" + "; ".join(oq(float(v)) for v in r) + "]" for r in rows) + "]"


def rag_lit(ts, ys):
    return "[" + "; ".join(f"({C.qlist(t)}, {C.qlist(y)})" for t, y in zip(ts, ys)) + "]"


def content_lit(grid, x, mask):
    return "[" + "; ".join("[" + "; ".join(f"({C.qlit(grid[j])}, {C.qlit(x[i, j])})" for j in range(len(grid)) if mask[i, j])
                           + "]" for i in range(x.shape[0])) + "]"


def long_lit(df):
    cols = list(df.columns)
    if cols != ["input_dim_0", "id", "values"] or not np.isfinite(df.to_numpy(dtype=float)).all():
        return None      # malformed table or NaN rows kept: cannot be the long format of finite content
    return "[" + "; ".join(f"({C.qlit(float(t))}, {int(i)}%Z, {C.qlit(float(v))})"
                           for t, i, v in zip(df["input_dim_0"], df["id"], df["values"])) + "]"


# ---------------------------------------------------------------- producers
def make_nan(grid, x, mask):
    """NaN-on-common-grid encoding through the real sparsifier (its random draws replaced by `mask`)."""
    from FDApy.simulation.simulation import _sparsify_univariate_data
    rows = iter(mask)
    return _sparsify_univariate_data(
        fd.dense(grid.copy(), x.copy()), 0.5, 0.05,
        runif=lambda lo, hi, k: np.full(k, 0.5),
        rchoice=lambda *a, **k: next(rows).copy())


def make_csv(grid, x, mask, tmpdir):
    """Ragged encoding through the real CSV loader (integer grids only).  Complete data come back dense."""
    import pandas as pd
    from FDApy.misc.loader import read_csv
    df = pd.DataFrame(np.where(mask, x, np.nan), columns=[str(int(g)) for g in grid])
    path = os.path.join(tmpdir, "c15.csv")
    df.to_csv(path, index=False, float_format="%.17g")
    return read_csv(path, float_precision="round_trip")


def make_hand(grid, x, mask):
    return fd.irregular([grid[mask[i]].copy() for i in range(x.shape[0])], [x[i][mask[i]].copy() for i in range(x.shape[0])])


# ---------------------------------------------------------------- generators
def row_masks(m):
    return [np.array(b, dtype=bool) for b in itertools.product([False, True], repeat=m) if sum(b) >= 2]


def all_patterns(n, m):
    rm = row_masks(m)
    for combo in itertools.product(range(len(rm)), repeat=n):
        mask = np.array([rm[i] for i in combo])
        if mask.any(axis=0).all():
            yield mask


def int_grid(rng, m, kind):
    if kind == "arange":
        return np.arange(m).astype(float)
    if kind == "gaps":
        return np.sort(rng.choice(np.arange(0, 3 * m), size=m, replace=False)).astype(float)
    if kind == "doy":
        return np.sort(rng.choice(np.arange(1, 366), size=m, replace=False)).astype(float)
    raise ValueError(kind)


def gen_cases(rng, quick):
    """yield (label, grid, x, mask, from_csv)"""
    # LARGE datasets on both sides of the `approx` switch of IrregularFunctionalData.mean (binned estimate when the long
    # table has more than 2000 rows): stored cells n_obs * n_grid > 2000 in every case, observed samples just below
    # 2000 (exact path) or above (binned path); missingness depends on the curve
    large = [(10, 250, 0.35), (10, 250, 0.08)] if quick else \
            [(10, 250, 0.35), (10, 250, 0.08), (12, 200, 0.22), (8, 300, 0.30), (25, 100, 0.30), (25, 100, 0.05), (11, 190, 0.06)]
    for k, (n, m, miss) in enumerate(large):
        grid = np.arange(m).astype(float)
        t = grid / (m - 1)
        x = np.round((fd.smooth_curves(rng, n, t, rough=True) + 0.2 * rng.normal(size=(n, m))) * 1024) / 1024
        while True:
            p_miss = np.clip(miss * np.linspace(0.4, 1.6, n), 0.0, 0.9)[rng.permutation(n)]
            mask = rng.uniform(size=(n, m)) >= p_miss[:, None]
            if (mask.sum(axis=1) >= 2).all() and mask.any(axis=0).all():
                break
        side = "observed>2000" if mask.sum() > 2000 else "observed<=2000"
        yield (f"large-{n}x{m}/{side}", grid, x, mask, True)
    exhaustive = [(2, 2), (2, 3), (3, 2), (3, 3), (2, 4), (3, 4)]
    for (n, m) in exhaustive:
        pats = list(all_patterns(n, m))
        if quick and len(pats) > 8:
            keep = sorted(rng.choice(len(pats), size=8, replace=False).tolist())
            # the complete pattern and the sparsest ones always
            pats = [pats[i] for i in keep] + [np.ones((n, m), dtype=bool)]
        for k, mask in enumerate(pats):
            kind = ["arange", "gaps", "doy"][k % 3]
            grid = int_grid(rng, m, kind)
            x = np.round(rng.normal(size=(n, m)) * 64) / 64
            if k % 4 == 1:
                # an observed value that is EXACTLY zero, at the last curve observing that point (F14: weight 0 rule)
                j = int(rng.integers(m))
                i = int(np.flatnonzero(mask[:, j])[-1])
                x[i, j] = 0.0
            yield (f"exhaustive-{n}x{m}/{kind}", grid, x, mask, True)
    n_rand = 8 if quick else 400
    for k in range(n_rand):
        n = int(rng.integers(4, 13))
        m = int(rng.integers(5, 8 if quick else 10))
        kindi = k % 5
        while True:
            p = rng.uniform(0.35, 0.95)
            mask = rng.uniform(size=(n, m)) < p
            if k % 8 == 7:
                mask[:] = True
            if k % 8 == 3:
                # every curve keeps the SAME NUMBER of samples and both end points; only the interior points differ
                keep = int(rng.integers(3, m))
                mask[:] = False
                mask[:, [0, m - 1]] = True
                for i in range(n):
                    mask[i, 1 + rng.choice(m - 2, size=keep - 2, replace=False)] = True
            if (mask.sum(axis=1) >= 2).all() and mask.any(axis=0).all():
                break
        if kindi < 3:
            grid = int_grid(rng, m, ["arange", "gaps", "doy"][kindi])
            t = (grid - grid[0]) / (grid[-1] - grid[0])
            x = np.round((fd.smooth_curves(rng, n, t) + 0.1 * rng.normal(size=(n, m))) * 1024) / 1024
            if k % 8 in (7, 2):
                # observed samples that are EXACTLY zero (curves starting at 0, zero crossings on grid points): a value, not a gap
                x[0, 0] = 0.0
                x[1, :] -= x[1, m // 2]
                x[n - 1, m - 1] = 0.0
                mask[0, 0] = mask[1, m // 2] = mask[n - 1, m - 1] = True
            yield (f"random/{['arange', 'gaps', 'doy'][kindi]}", grid, x, mask, True)
        else:
            grid = fd.grid(rng, m, ["uniform", "nonuniform"][kindi - 3])
            x = fd.smooth_curves(rng, n, grid) + 0.1 * rng.normal(size=(n, m))
            label = f"random/{['uniform', 'nonuniform'][kindi - 3]}"
            if k % 2 == 1:
                # the same curves on a grid in small units (nanoseconds expressed in seconds): sampling points a few 1e-10 apart
                # are different sampling points
                grid = grid * 2.0 ** -30
                label += "/small-units-grid"
            yield (label, grid, x, mask, False)


# ---------------------------------------------------------------- operations
def operations(grid):
    h = 1.5 * float(grid[-1] - grid[0])
    ps = {"penalty": 1.0, "n_segments": 3, "degree": 2}
    m = len(grid)
    ops = [
        ("mean-LP", lambda d: d.mean(method_smoothing="LP", bandwidth=h)),
        ("mean-PS", lambda d: d.mean(method_smoothing="PS", **ps)),
        ("mean-interpolation", lambda d: d.mean(method_smoothing="interpolation")),
        ("smooth-LP", lambda d: d.smooth(method="LP", bandwidth=h)),
        ("smooth-LP-degree2", lambda d: d.smooth(method="LP", bandwidth=h, degree=2)),
        ("smooth-PS", lambda d: d.smooth(method="PS", **ps)),
        ("smooth-PS-penalty10", lambda d: d.smooth(method="PS", penalty=10.0, n_segments=4, degree=3)),
        ("smooth-interpolation", lambda d: d.smooth(method="interpolation")),
        ("center-LP", lambda d: d.center(method_smoothing="LP", bandwidth=h)),
        ("center-interpolation", lambda d: d.center(method_smoothing="interpolation")),
        ("norm", lambda d: d.norm()),
        ("norm-squared-stand", lambda d: d.norm(squared=True, use_argvals_stand=True)),
        # squared: composite Simpson has a negative weight when neighbouring spacings differ by more than a factor 2, so the
        # square root of a Simpson "squared norm" may legitimately be NaN (Lemmas/Simpson.v, simpson_weight_negative)
        ("norm-squared-simpson", lambda d: d.norm(squared=True, method_integration="simpson")),
        ("norm-squared-simpson-stand", lambda d: d.norm(squared=True, method_integration="simpson", use_argvals_stand=True)),
        ("inner_product-simpson", lambda d: d.inner_product(method_integration="simpson", method_smoothing="LP", bandwidth=h)),
        ("noise_variance-1", lambda d: d.noise_variance(order=1)),
        ("noise_variance-2", lambda d: d.noise_variance(order=2)),
        ("covariance-raw", lambda d: d.covariance(method_smoothing="LP", smooth=False, kwargs_center={"bandwidth": h})),
        ("inner_product", lambda d: d.inner_product(method_smoothing="LP", bandwidth=h)),
        ("add", lambda d: d + d),
        ("sub", lambda d: (d * 3.0) - d),
        ("mul", lambda d: d * d),
        ("div", lambda d: d / ((d * d) + 1.0)),
        ("scalar", lambda d: (d * 2.5) + 1.0),
    ]
    ops += [
        ("center-PS", lambda d: d.center(method_smoothing="PS", **ps)),
        ("covariance-PS-center", lambda d: d.covariance(method_smoothing="PS", smooth=False, kwargs_center=dict(ps))),
        ("inner_product-PS", lambda d: d.inner_product(method_smoothing="PS", **ps)),
    ]
    if m >= 4:
        ops.append(("covariance-LP", lambda d: d.covariance(method_smoothing="LP", kwargs_center={"bandwidth": h},
                                                             bandwidth=h, degree=1)))

    def long_after_to_basis(d):
        # LAST operation on each object: the long format after a change of representation was asked of the same object
        # (to_basis itself may legitimately refuse tiny grids; what is compared is the long table — the content — afterwards)
        try:
            with warnings.catch_warnings():
                warnings.simplefilter("ignore")
                d.to_basis(method="PS", **ps)
        except Exception:  # noqa: BLE001
            pass
        df = d.to_long().dropna()
        return np.asarray(df[["input_dim_0", "id", "values"]].to_numpy(dtype=float))
    ops.append(("long-format-after-to_basis", long_after_to_basis))
    return ops, h, ps


# operations run on the LARGE datasets (the mean, every route into it, and what is cheap on 250-point grids)
LARGE_OPS = {"mean-LP", "mean-PS", "mean-interpolation", "center-LP", "center-interpolation", "center-PS",
             "covariance-raw", "covariance-PS-center", "norm", "noise_variance-2", "add"}

# operations whose smoothing is needs at least three samples per curve to be well posed (degree-2 local fits)
NEEDS3 = {"smooth-LP-degree2"}


def outcome(f):
    try:
        with warnings.catch_warnings():
            warnings.simplefilter("ignore")
            return ("ok", f())
    except Exception as e:  # noqa: BLE001
        return ("err", type(e).__name__ + ": " + str(e)[:100])


def kind_of(v):
    from FDApy.representation.functional_data import DenseFunctionalData, IrregularFunctionalData
    if isinstance(v, IrregularFunctionalData):
        return "irregular"
    if isinstance(v, DenseFunctionalData):
        return "dense"
    return "array"


def as_array(v):
    from FDApy.representation.functional_data import DenseFunctionalData
    if isinstance(v, DenseFunctionalData):
        return np.asarray(v.values, dtype=float), [np.asarray(a, dtype=float) for a in v.argvals.values()]
    return np.asarray(v, dtype=float), []


def close(a, b, tol_rel):
    if a.shape != b.shape:
        return False, f"shapes {a.shape} vs {b.shape}"
    if a.size == 0:
        return True, ""
    na, nb = np.isnan(a), np.isnan(b)
    if not np.array_equal(na, nb):
        return False, f"NaN pattern differs ({int(na.sum())} vs {int(nb.sum())} NaN)"
    fin = ~na
    if not fin.any():
        return True, ""
    scale = max(1.0, float(np.max(np.abs(a[fin]))), float(np.max(np.abs(b[fin]))))
    d = float(np.max(np.abs(a[fin] - b[fin])))
    return d <= tol_rel * scale + 1e-12, f"max abs difference {d:.3g} (scale {scale:.3g})"


def irregular_raw(v, grid):
    """-> ('nan', rows) when every curve lives on the common grid with NaN for missing cells,
          ('rag', ts, ys) otherwise"""
    labels = list(v.argvals.keys())
    ts = [np.asarray(v.argvals[k]["input_dim_0"], dtype=float) for k in labels]
    ys = [np.asarray(v.values[k], dtype=float) for k in labels]
    return labels, ts, ys


TOL = {"smooth-PS": 1e-6, "smooth-PS-penalty10": 1e-6, "mean-PS": 1e-6, "covariance-LP": 1e-7,
       "smooth-LP-degree2": 1e-7}


# ---------------------------------------------------------------- F14: P-spline mean of irregular data
F14 = "F14"
F14_WHAT = ("IrregularFunctionalData.mean(method_smoothing='PS') (hence center / covariance / inner_product with "
            "method_smoothing='PS') fits the P-spline to the LAST observed value per grid point with weight 1 (an observed "
            "value exactly 0 gets weight 0) instead of the pooled observations (psplines.py:_format_data)")
F14_OPS = ("mean-PS", "center-PS", "covariance-PS-center", "inner_product-PS")


def layouts(x, mask):
    """(y_grid, weights) handed to the P-spline fit, on the grid of observed abscissae (= the whole grid here):
       correct — mean of the values observed at the point, weight = their number (pooled penalised least squares);
       defect  — the LAST value observed at the point in long-table order (curve by curve), weight 1, weight 0
                 where that value is exactly 0 (or nothing is observed)."""
    cnt = mask.sum(axis=0).astype(float)
    pooled = np.where(mask, x, 0.0).sum(axis=0) / cnt
    last = np.zeros(x.shape[1])
    for i in range(x.shape[0]):          # long-table order: later curves overwrite earlier ones
        last[mask[i]] = x[i][mask[i]]
    w_last = np.ones_like(last)
    w_last[last == 0] = 0
    return (pooled, cnt), (last, w_last)


def ps_mean_model(grid, y, w, ps):
    """the REAL P-spline smoother (property C05) on a prescribed layout, with the options `mean` uses"""
    from FDApy.preprocessing.smoothing.psplines import PSplines
    kw = {k: v for k, v in ps.items() if k != "penalty"}
    model = PSplines(**kw)
    model.fit(x=[np.asarray(grid, dtype=float).copy()], y=np.asarray(y, dtype=float).copy(),
              sample_weights=np.asarray(w, dtype=float).copy(), penalty=ps["penalty"])
    return np.asarray(model.predict([np.asarray(grid, dtype=float).copy()]), dtype=float)


def f14_expected(name, grid, x, mask, mean_curve, noise_var):
    """what the operation must return when the mean curve is `mean_curve`; everything downstream of the mean
    is the real code (centring is a subtraction; raw covariance / Gram matrix are properties C09 / C08)"""
    if name == "mean-PS":
        return [mean_curve[np.newaxis]]
    centred = fd.irregular([grid[mask[i]].copy() for i in range(x.shape[0])],
                           [x[i][mask[i]] - mean_curve[mask[i]] for i in range(x.shape[0])])
    if name == "center-PS":
        return [np.asarray(v, dtype=float) for v in centred.values.values()]
    with warnings.catch_warnings():
        warnings.simplefilter("ignore")
        if name == "covariance-PS-center":
            return [np.asarray(centred.covariance(center=False, smooth=False).values, dtype=float)]
        if name == "inner_product-PS":
            return [np.asarray(centred.smooth(method="interpolation").inner_product(
                method_integration="trapz", method_smoothing=None, noise_variance=noise_var), dtype=float)]
    raise ValueError(name)


def f14_parts(name, value, mask):
    """the implementation's result in the same shape as f14_expected; None when it is malformed"""
    if name == "center-PS":
        if kind_of(value) != "irregular":
            return None
        parts = []
        for i, k in enumerate(value.values.keys()):
            v = np.asarray(value.values[k], dtype=float)
            if v.shape == mask[i].shape and mask[i].sum() != mask[i].size:      # on the common grid: NaN exactly off-support
                if not np.isnan(v[~mask[i]]).all():
                    return None
                v = v[mask[i]]
            elif v.shape == mask[i].shape and np.isnan(v).any():
                return None
            parts.append(v)
        return parts
    a, _ = as_array(value)
    return [a]


def judge_f14(rep, name, res, grid, x, mask, ps, noise_var, case, dense_twin, models):
    """correct model first, then the defect model, else violation"""
    key = (case["case"], name)
    rep.case(key, kind=case["generator"], sample={"generator": case["generator"], "n_obs": x.shape[0], "n_grid": x.shape[1],
                                                   "operation": name, "missing": int((~mask).sum())})
    bad = [f"{k} encoding raised {r[1]}" for k, r in res.items() if r[0] != "ok"]
    if bad:
        rep.disagreements_checked += 1
        limited_violation(rep, name + "/raises", f"{name}: " + "; ".join(bad), case)
        return
    try:
        exp_ok = f14_expected(name, grid, x, mask, models["ok"], noise_var)
        exp_def = f14_expected(name, grid, x, mask, models["def"], noise_var)
    except Exception as e:  # noqa: BLE001
        limited_violation(rep, name + "/model", f"{name}: the reference computation failed: {type(e).__name__}: {e}"[:200], case)
        return
    parts = {k: f14_parts(name, r[1], mask) for k, r in res.items()}
    for k, pr in parts.items():
        if pr is None:
            rep.disagreements_checked += 1
            limited_violation(rep, f"{name}/malformed/{k}", f"{name}: malformed result for the {k} encoding "
                              f"(wrong type, or samples where the content has none)", case)
            return
        if any(np.isnan(a).any() for a in pr):
            rep.disagreements_checked += 1
            limited_violation(rep, f"{name}/nan/{k}", f"{name}: NaN in the result for the {k} encoding although all observed "
                              f"samples are finite", case)
            return

    def matches(pr, exp, tol):
        return len(pr) == len(exp) and all(close(a, b, tol)[0] for a, b in zip(pr, exp))
    tol_ok = TOL.get("mean-PS", 1e-6)
    if all(matches(pr, exp_ok, tol_ok) for pr in parts.values()):
        return
    rep.disagreements_checked += 1
    if all(matches(pr, exp_def, 1e-9) for pr in parts.values()):
        rep.known_finding(F14, F14_WHAT, {"operation": name, "grid": [float(g) for g in grid], "values": x.tolist(),
                                          "mask": mask.astype(int).tolist(), "ps": ps,
                                          "implementation": [a.tolist() for a in parts["nan"]][:3],
                                          "pooled_model": [a.tolist() for a in exp_ok][:3],
                                          "last_observation_model": [a.tolist() for a in exp_def][:3]})
        return
    who = [k for k, pr in parts.items() if not matches(pr, exp_def, 1e-9) and not matches(pr, exp_ok, tol_ok)]
    limited_violation(rep, f"{name}/neither", f"{name}: the result for the {', '.join(who)} encoding(s) equals neither the pooled "
                      f"(correct) model nor the last-observation defect model F14", 
                      {**case, "result": {k: [C.hexf(a) for a in pr] for k, pr in parts.items()},
                       "pooled_model": [C.hexf(a) for a in exp_ok], "last_observation_model": [C.hexf(a) for a in exp_def]})


# ---------------------------------------------------------------- the check
SEEN_KINDS: dict = {}
SUPPRESSED: dict = {}
MAX_PER_KIND = 3


def limited_violation(rep, kind, what, payload):
    """At most MAX_PER_KIND replay files per kind of disagreement; the rest is counted in the evidence."""
    k = SEEN_KINDS.get(kind, 0)
    SEEN_KINDS[kind] = k + 1
    if k < MAX_PER_KIND:
        rep.violation(what, payload)
    else:
        SUPPRESSED[kind] = SUPPRESSED.get(kind, 0) + 1


def check_case(rep, run, pending, tmpdir, idx, label, grid, x, mask, from_csv):
    n, m = x.shape
    complete = bool(mask.all())
    base = {"case": idx, "generator": label, "n_obs": n, "n_grid": m, "grid": C.hexf(grid), "values": C.hexf(x),
            "mask": mask.astype(int).tolist()}
    enc = {}
    oc = outcome(lambda: make_nan(grid, x, mask))
    if oc[0] != "ok":
        rep.case((idx, "producer"), kind=label)
        limited_violation(rep, "producer/sparsifier", f"the sparsifier failed on the prescribed mask: {oc[1]}", base)
        return
    enc["nan"] = oc[1]
    enc["ragged"] = make_hand(grid, x, mask)
    dense_twin = fd.dense(grid.copy(), x.copy()) if complete else None
    if from_csv:
        oc = outcome(lambda: make_csv(grid, x, mask, tmpdir))
        if oc[0] != "ok":
            rep.case((idx, "producer"), kind=label)
            limited_violation(rep, "producer/read_csv", f"read_csv failed: {oc[1]}", base)
        elif kind_of(oc[1]) == "irregular":
            enc["csv"] = oc[1]
        elif complete:
            dense_csv = oc[1]
            ok_d, why = close(np.asarray(dense_csv.values, dtype=float), x, 0.0)
            ok_t = np.array_equal(np.asarray(dense_csv.argvals["input_dim_0"], dtype=float), grid)
            rep.case((idx, "csv-dense"), kind=label + "/csv-complete-is-dense")
            if not (ok_d and ok_t):
                limited_violation(rep, "producer/csv-dense", "read_csv of a complete table is not the dense dataset with the same numbers", base)
        else:
            rep.case((idx, "producer"), kind=label)
            limited_violation(rep, "producer/csv-kind", "read_csv returned dense data for a table with missing cells", base)

    large = x.size > 600      # big tables: a reduced set of model terms and operations (see LARGE_OPS)
    # ---- structure, against the model (exact)
    ct_lit = content_lit(grid, x, mask)
    g_lit = C.qlist(grid)
    ct, g = "ct", "g"     # bound once per dataset by a `let` around the list of checks
    terms = []   # (what, term)
    _, ts, ys = irregular_raw(enc["nan"], grid)
    same_grid = all(t.shape == grid.shape and np.array_equal(t, grid) for t in ts)
    terms.append(("sparsifier output is enc_nan(content)", f"nan_ok {g} {ct} {rows_lit(ys)}" if same_grid else "false"))
    for name in ("ragged", "csv"):
        if name in enc:
            _, ts, ys = irregular_raw(enc[name], grid)
            who = "read_csv output" if name == "csv" else "hand-built ragged data"
            terms.append((f"{who} is enc_ragged(content)", f"rag_ok {ct} {rag_lit(ts, ys)}"))
    longs = {}
    for name, d in enc.items():
        oc = outcome(lambda: d.to_long())
        if oc[0] != "ok":
            terms.append((f"to_long of the {name} encoding raised {oc[1]}", "false"))
            continue
        if large:
            # big tables: the long formats of the encodings are compared with each other and with the content directly
            longs[name] = oc[1].to_numpy(dtype=float)
            want = np.array([[grid[j], i, x[i, j]] for i in range(n) for j in range(m) if mask[i, j]])
            rep.case((idx, "to_long", name), kind=label)
            if longs[name].shape != want.shape or not np.array_equal(longs[name], want):
                limited_violation(rep, f"to_long/{name}", f"to_long of the {name} encoding is not the long format of the content", base)
            continue
        lit = long_lit(oc[1])
        terms.append((f"to_long of the {name} encoding is the long format of the content",
                      f"long_ok {ct} {lit}" if lit is not None else "false"))
        pts = np.asarray(d.argvals.to_dense()["input_dim_0"], dtype=float)
        terms.append((f"evaluation points (argvals.to_dense) of the {name} encoding are the observed grid points",
                      f"points_ok {g} {ct} {C.qlist(pts)}"))
    if complete:
        terms.append(("complete content: both encodings are the dense value matrix", f"dense_ok {g} {ct} {C.qmat(x)}"))

    # ---- operations: differential between the encodings, NaN-freeness, dense twin
    ops, h, ps = operations(grid)
    min_samples = int(mask.sum(axis=1).min())
    # F14: the two layouts of the long table (checked against the Coq model) and the two mean curves
    (y_pool, w_pool), (y_last, w_last) = layouts(x, mask)
    binned = int(mask.sum()) > 2000
    if binned:
        # documented `approx` regime of mean(): the long table is first averaged per abscissa, so the layout the smoother
        # receives is (mean per point, weight 1) — the accepted approximation; only the zero-weight rule of F14 remains
        y_last, w_last = y_pool.copy(), np.where(y_pool == 0, 0.0, 1.0)
        w_pool = np.ones_like(y_pool)
    lay = lambda y, w: "[" + "; ".join(f"({C.qlit(a)}, {C.qlit(b)})" for a, b in zip(y, w)) + "]"
    if not binned:
      terms.append(("the harness layouts of the long table are format_pooled / format_last of the content",
                    f"layouts_ok {C.qlit(1e-12 * max(1.0, float(np.max(np.abs(x)))))} {g} {ct} {lay(y_pool, w_pool)} {lay(y_last, w_last)}"))
    f14_models = None
    try:
        with warnings.catch_warnings():
            warnings.simplefilter("ignore")
            f14_models = {"ok": ps_mean_model(grid, y_pool, w_pool, ps).reshape(-1),
                          "def": ps_mean_model(grid, y_last, w_last, ps).reshape(-1)}
            noise_var = enc["ragged"].noise_variance(order=2)
    except Exception as e:  # noqa: BLE001
        limited_violation(rep, "f14/model", f"P-spline reference fit failed: {type(e).__name__}: {e}"[:200], base)
    if complete and f14_models is not None:
        # model validation: for complete data the pooled fit IS the dense twin's estimator (the dense code fits the
        # average curve with unit weights, i.e. the same criterion with penalty / n_obs)
        tw = outcome(lambda: dense_twin.mean(method_smoothing="PS", **{**ps, "penalty": ps["penalty"] / n}))
        rep.case((idx, "mean-PS", "twin"), kind="dense-twin")
        if tw[0] != "ok" or not close(np.asarray(tw[1].values, dtype=float).reshape(-1), f14_models["ok"], 1e-6)[0]:
            limited_violation(rep, "mean-PS/model-vs-twin", "mean-PS: the pooled reference fit is not the dense twin's "
                              "P-spline mean (same criterion, penalty / n_obs)", {**base, "twin": str(tw[1])[:200]})
    for name, f in ops:
        if name in NEEDS3 and min_samples < 3:
            continue
        if large and name not in LARGE_OPS:
            continue
        res = {k: outcome(lambda: f(d)) for k, d in enc.items()}
        if name in F14_OPS:
            if f14_models is not None:
                judge_f14(rep, name, res, grid, x, mask, ps, noise_var, {**base, "operation": name, "ps": ps},
                          dense_twin, f14_models)
            continue
        key = (idx, name)
        case = {**base, "operation": name, "bandwidth": h, "ps": ps}
        ref = res["nan"]
        rep.case(key, nontrivial=not complete or name.startswith(("smooth", "mean", "cov")), kind=label,
                 sample={"generator": label, "n_obs": n, "n_grid": m, "operation": name, "missing": int((~mask).sum())})
        bad = []
        for k, r in res.items():
            if r[0] != "ok":
                bad.append(f"{k} encoding raised {r[1]}")
        if bad:
            rep.disagreements_checked += 1
            limited_violation(rep, name + "/raises", f"{name}: " + "; ".join(bad), case)
            continue
        kind = kind_of(ref[1])
        tol = TOL.get(name, 1e-9)
        if kind == "irregular":
            # decode both through the model
            _, ts_n, ys_n = irregular_raw(res["nan"][1], grid)
            on_grid = all(t.shape == grid.shape and np.array_equal(t, grid) for t in ts_n)
            scale = max([1.0] + [float(np.nanmax(np.abs(y))) for y in ys_n if np.isfinite(y).any()])
            if not all(np.isfinite(y[mask[i]]).all() for i, y in enumerate(ys_n) if y.shape == mask[i].shape):
                rep.disagreements_checked += 1
                limited_violation(rep, name + "/nan/nan", f"{name}: non-finite values at observed cells of the NaN-encoded result", case)
                continue
            if not on_grid:
                terms.append((f"{name}: result of the NaN encoding is no longer on the common grid", "false"))
                continue
            if large:
                # big tables: decode in the harness (same rule as dec_nan: drop the missing cells) instead of in Coq
                okl = all(np.array_equal(~np.isnan(y), mask[i]) for i, y in enumerate(ys_n))
                for k in res:
                    if k == "nan" or not okl:
                        continue
                    _, ts_r, ys_r = irregular_raw(res[k][1], grid)
                    okl = okl and len(ys_r) == n and all(
                        np.array_equal(ts_r[i], grid[mask[i]]) and close(ys_n[i][mask[i]], ys_r[i], tol)[0] for i in range(n))
                if not okl:
                    rep.disagreements_checked += 1
                    limited_violation(rep, name + "/differs/large", f"{name}: the encodings of the same content give results that "
                                      f"decode to different contents", case)
                continue
            terms.append((f"{name}: the NaN-encoded result has samples exactly where the content has",
                          f"same_support {g} {ct} {rows_lit(ys_n)}"))
            _, ts_h, ys_h = irregular_raw(res["ragged"][1], grid)
            # NaN encoding vs per-curve encoding: decoded by the model
            terms.append((f"{name}: NaN-encoded and ragged results decode to different contents",
                          f"results_agree {C.qlit(tol * scale + 1e-12)} {g} {rows_lit(ys_n)} {rag_lit(ts_h, ys_h)}"))
            for k in res:
                if k == "nan":
                    continue
                _, ts_r, ys_r = irregular_raw(res[k][1], grid)
                if any(np.isnan(y).any() for y in ys_r):
                    limited_violation(rep, f"{name}/nan/{k}", f"{name}: NaN in the result for the {k} encoding (all observed samples are finite)", case)
                if k == "csv":
                    # two per-curve encodings (loader vs hand-built): same structure, compared directly
                    same = len(ts_r) == len(ts_h) and all(
                        np.array_equal(a, b) and close(p, q, tol)[0] for a, b, p, q in zip(ts_r, ts_h, ys_r, ys_h))
                    if not same:
                        rep.disagreements_checked += 1
                        limited_violation(rep, f"{name}/differs/csv", f"{name}: the read_csv encoding and the hand-built per-curve "
                                          f"encoding of the same content give different results", {**case, "encoding": "csv"})
            if complete:
                tw = outcome(lambda: f(dense_twin))
                if tw[0] == "ok" and kind_of(tw[1]) == "dense":
                    a = np.array(ys_n)
                    okc, why = close(a, np.asarray(tw[1].values, dtype=float), tol)
                    if not okc:
                        limited_violation(rep, name + "/twin", f"{name}: complete irregular data differ from the dense twin ({why})", case)
            continue
        a_ref, axes_ref = as_array(ref[1])
        if np.isnan(a_ref).any():
            rep.disagreements_checked += 1
            limited_violation(rep, name + "/nan/nan", f"{name}: NaN in the result for the NaN-on-common-grid encoding although all observed samples "
                          f"are finite ({int(np.isnan(a_ref).sum())} of {a_ref.size} values)", case)
        for k in res:
            if k == "nan":
                continue
            a, axes = as_array(res[k][1])
            if np.isnan(a).any():
                rep.disagreements_checked += 1
                limited_violation(rep, f"{name}/nan/{k}", f"{name}: NaN in the result for the {k} encoding although all observed samples are finite", case)
            okc, why = close(a_ref, a, tol)
            okx = len(axes) == len(axes_ref) and all(p.shape == q.shape and np.array_equal(p, q) for p, q in zip(axes, axes_ref))
            if not (okc and okx):
                rep.disagreements_checked += 1
                limited_violation(rep, f"{name}/differs/{k}", f"{name}: the NaN-on-common-grid encoding and the {k} encoding of the same content give different "
                              f"results ({why if not okc else 'different evaluation points'})",
                              {**case, "encoding": k, "result_nan": C.hexf(a_ref) if a_ref.size < 200 else "large",
                               "result_other": C.hexf(a) if a.size < 200 else "large"})
        if complete:
            twin_check(rep, name, f, dense_twin, a_ref, n, h, ps, case, tol)
    body = "; ".join(t for _, t in terms)
    pending.append((run.add(f"(let g := {g_lit} in let ct : qcontent := {ct_lit} in [{body}])"), [w for w, _ in terms], base))


def twin_check(rep, name, f, dense_twin, a_ref, n, h, ps, case, tol):
    """complete content: the same operation with the same smoothing settings on the equivalent dense dataset"""
    equivalent = {
        "mean-LP": lambda d: d.mean(method_smoothing="LP", bandwidth=h),
        "smooth-LP": f, "smooth-LP-degree2": f, "smooth-PS": f, "smooth-PS-penalty10": f,
        "norm": f, "norm-squared-stand": f, "norm-squared-simpson": f, "norm-squared-simpson-stand": f, "noise_variance-1": f, "noise_variance-2": f,
        "covariance-raw": lambda d: d.covariance(method_smoothing=None, kwargs_center={"method_smoothing": "LP", "bandwidth": h}),
        "covariance-LP": lambda d: d.covariance(method_smoothing="LP", kwargs_center={"bandwidth": h}, bandwidth=h, degree=1),
        "inner_product": lambda d: d.inner_product(method_smoothing="LP", noise_variance=0.0, bandwidth=h),
    }
    if name not in equivalent:
        return
    tw = outcome(lambda: equivalent[name](dense_twin))
    if tw[0] != "ok":
        rep.notes.append(f"dense twin refused {name}: {tw[1]}"[:160]) if len(rep.notes) < 12 else None
        return
    b, _ = as_array(tw[1])
    if name.startswith("covariance"):
        b = b * (n - 1) / n          # the n versus n-1 convention
    if name == "inner_product":
        return   # the irregular route subtracts an estimated noise variance on the diagonal; compared through norm/cov instead
    okc, why = close(a_ref, b, max(tol, 1e-8))
    rep.case((case["case"], name, "twin"), kind="dense-twin")
    if not okc:
        rep.disagreements_checked += 1
        limited_violation(rep, name + "/twin", f"{name}: complete irregular data (nothing missing) differ from the equivalent dense dataset ({why})",
                      {**case, "result_irregular": C.hexf(a_ref) if a_ref.size < 200 else "large",
                       "result_dense": C.hexf(b) if b.size < 200 else "large"})


def run(rep, props, replay=None):
    quick = C.tier() == "quick"
    rng = np.random.default_rng([C.seed(), 15])
    from concurrent.futures import ThreadPoolExecutor
    import re
    import time
    cases = list(gen_cases(rng, quick))
    if replay is not None and "grid" in replay:
        cases = [(replay.get("generator", "replay"), C.unhex(replay["grid"]), C.unhex(replay["values"]),
                  np.array(replay["mask"], dtype=bool), bool(np.all(np.mod(C.unhex(replay["grid"]), 1) == 0)))]
    t0 = time.time()
    chunk = 12
    futures = []

    def evaluate(run_, pend):
        out = run_.run(kind="raw")
        return [(re.findall(r"true|false", r), whats, base) for r, (_, whats, base) in zip(out, pend)]

    with ThreadPoolExecutor(max_workers=2) as pool, \
            tempfile.TemporaryDirectory(prefix="c15_", dir=C._scratch()) as tmpdir:
        for c0 in range(0, len(cases), chunk):
            run_ = C.CoqRun("C15", IMPORTS, shard=2)
            pending = []
            for idx in range(c0, min(c0 + chunk, len(cases))):
                label, grid, x, mask, from_csv = cases[idx]
                check_case(rep, run_, pending, tmpdir, idx, label, grid, x, mask, from_csv)
            futures.append(pool.submit(evaluate, run_, pending))
        t1 = time.time()
        results = [r for f in futures for r in f.result()]
    n_terms = 0
    for vals, whats, base in results:
        if len(vals) != len(whats):
            raise RuntimeError(f"model evaluation returned {len(vals)} results for {len(whats)} checks")
        for v, what in zip(vals, whats):
            n_terms += 1
            rep.case((base["case"], what), kind="structure")
            if v != "true":
                rep.disagreements_checked += 1
                limited_violation(rep, "structure/" + re.sub(r"^[\w-]+: ", "", what),
                                  f"structure: NOT({what})" if not what.endswith("different contents") else f"structure: {what}",
                                  base)
    rep.extra["timing_s"] = {"implementation_runs (model evaluation overlapped)": round(t1 - t0, 1),
                             "waiting_for_model_evaluation": round(time.time() - t1, 1),
                             "datasets": len(cases), "model_checks": n_terms}
    if SUPPRESSED:
        rep.extra["further_violations_of_the_same_kind_not_written_as_replays"] = dict(SUPPRESSED)
    rep.extra["producers"] = "NaN encoding: FDApy.simulation.simulation._sparsify_univariate_data (mask injected through its " \
                             "rchoice argument); ragged encoding: FDApy.misc.loader.read_csv for integer grids, hand-built otherwise"


RULE = ("n_obs 2..12 on grids of 2..9 points; every missingness pattern with >= 2 samples per curve and every grid point observed, "
        "for 2x2, 2x3, 3x2, 3x3, 2x4, 3x4 (n_obs x grid; subsampled to 8 + the complete pattern per size in the quick tier), random "
        "patterns beyond (one in eight complete) + LARGE datasets (10x250 ... 25x100 cells, curve-dependent missingness) on both sides of the "
        "2000-row `approx` switch of mean() with a reduced operation set; integer grids (0..m-1, with gaps, days of the year) go through read_csv, [0,1] and "
        "non-uniform dyadic grids are hand-built; operations: to_long, mean LP/PS/interpolation, smooth LP (degree 1, 2)/PS (two "
        "settings)/interpolation, center LP/interpolation, norm (plain, squared standardised), noise_variance order 1/2, covariance "
        "raw / LP-smoothed, inner_product, + - * / between datasets and with scalars; mean / center / raw covariance / inner_product "
        "with method_smoothing='PS' against the pooled (correct) and last-observation (defect, F14) reference fits; one pattern in four "
        "of the exhaustive part carries an observed value that is exactly 0. A case is one (dataset, operation); complete data are "
        "additionally compared with the dense twin.")
ASSUME = ["explicit bandwidth 1.5 x range (every sample has positive kernel weight) and explicit P-spline settings, so that smoothing is "
          "well posed with 2 samples per curve; degree-2 local fits only with >= 3 samples per curve",
          "tolerance between encodings 1e-9*scale (1e-6 after a P-spline solve, 1e-7 after 2-D / degree-2 local fits)",
          "the pandas row index of to_long (gaps left by dropna in the NaN encoding) is not part of the content and is not compared",
          "inner_product of complete data is not compared with the dense twin (the irregular route estimates and removes a noise variance)",
          "F14 reference fits call the real PSplines smoother (verified by C05) and, downstream of the mean, the real raw covariance / "
          "interpolation / Gram code (C09, C08) on data centred by the reference mean; the correct reference is the pooled penalised "
          "least-squares fit (weights = number of observations per point), which for complete data is the dense twin's P-spline mean "
          "with penalty / n_obs (checked in every run); match with the defect model is required to 1e-9 relative, with the correct "
          "model to 1e-6 (after a P-spline solve)"]
