"""C18 — basis families have their defining analytic properties."""
from __future__ import annotations

import math
import warnings

import numpy as np

from harness import common as C
from harness import fd

IMPORTS = "From FDAV Require Import Base.Num Base.Vec Base.Cmp Model.Basis Model.Simpson Tie.C18."
RULE = ("_basis_bsplines for degree 1..5 x n_functions degree+1..15 (quick: a stratified subset; thorough: all, up to 40) on sorted "
        "non-uniform dyadic grids containing both domain end points, several domains, vs the exact Cox-de Boor model in Q (tolerance "
        "1e-9*n_segments^degree because the code's truncated-power formula cancels); _basis_legendre vs Bonnet's recurrence; Basis(...) "
        "for all families: intercept handling, normalisation (unit Simpson norm), 2-D tensor products vs the model's row-major tensor; "
        "monitors on the implementation: non-negativity, partition of unity incl. the right end point, <= degree+1 non-zero functions, "
        "orthonormality of Fourier (grid interval) / Wiener ([0,1]) and orthogonality of Legendre ([-1,1]) by quadrature on fine grids, "
        "closed-form values of Fourier/Wiener. Non-trivial: n_segments >= 2; distinct by (degree, n_functions, grid, domain).")
ASSUME = ["B-spline model = Cox-de Boor recursion on the equally spaced extended knots; equality with the code's truncated-power "
          "construction is established only by this correspondence run (C18 tp_equals_cdb_partial)",
          "Fourier / Wiener / Legendre orthogonality: quadrature monitors with tolerance 1e-5 on 2001-point grids, not theorems"]


def bs_cases(rng, quick):
    cases = []
    degs = range(1, 6)
    for p in degs:
        nfs = range(p + 1, 16 if quick else 41)
        if quick:
            nfs = sorted(set([p + 1, p + 2, p + 3] + list(rng.choice(list(nfs), size=2, replace=False))))
        for nf in nfs:
            cases.append((p, int(nf)))
    return cases


def integer_grids(rep):
    """Whole-number sampling points (days 1..365, indices) given as INTEGER arrays: every family evaluates to what it gives on the
    same points as floats (values of modulus below one must not be truncated to the grid's storage type)."""
    from FDApy.misc.basis import _basis_bsplines, _basis_legendre, _basis_fourier, _basis_wiener
    from FDApy.representation.basis import Basis
    from FDApy.representation.argvals import DenseArgvals
    rng = np.random.default_rng([C.seed(), 18, 13])
    for rnd in range(2):
        lo = int(rng.integers(0, 3))
        xi = np.arange(lo, lo + int(rng.integers(12, 40)) + 1)
        xf = xi.astype(float)
        nf = int(rng.integers(3, 7))
        fams = {"fourier": lambda x: _basis_fourier(x, n_functions=nf), "legendre": lambda x: _basis_legendre(x, n_functions=nf),
                "wiener": lambda x: _basis_wiener(x, n_functions=nf), "bsplines": lambda x: _basis_bsplines(x, n_functions=nf + 2, degree=2),
                "Basis(fourier)": lambda x: Basis(name="fourier", n_functions=nf, argvals=DenseArgvals({"input_dim_0": x})).values,
                "Basis(legendre)": lambda x: Basis(name="legendre", n_functions=nf, argvals=DenseArgvals({"input_dim_0": x})).values}
        bad = []
        for name, f in fams.items():
            with warnings.catch_warnings():
                warnings.simplefilter("ignore")
                try:
                    want = np.asarray(f(xf.copy()), float)
                except Exception:  # noqa: BLE001
                    continue            # the family refuses this configuration for floats too: not this monitor's subject
                try:
                    got = np.asarray(f(xi.copy()), float)
                except Exception as e:  # noqa: BLE001
                    bad.append(f"{name} raised {type(e).__name__} on the integer-dtype grid: {str(e)[:80]}")
                    continue
            if got.shape != want.shape or not np.allclose(got, want, rtol=1e-10, atol=1e-10 * max(1.0, float(np.max(np.abs(want))))):
                bad.append(f"{name} on the integer-dtype grid differs from the values on the same points as floats (max "
                           f"{float(np.max(np.abs(got - want))) if got.shape == want.shape else float('nan'):.3g})")
        rep.case(("integer-grid", rnd, xi.tobytes(), nf), kind="dtype/integer-grid")
        if bad:
            rep.violation("basis families on whole-number sampling points: " + "; ".join(bad), {"grid": xi.tolist(), "n_functions": nf})


def run(rep, props, replay=None):
    from FDApy.misc.basis import _basis_bsplines, _basis_legendre, _basis_fourier, _basis_wiener
    from FDApy.representation.basis import Basis
    from FDApy.representation.argvals import DenseArgvals
    quick = C.tier() == "quick"
    rng = np.random.default_rng([C.seed(), 18])
    integer_grids(rep)
    runq = C.CoqRun("C18", IMPORTS, shard=6)
    todo = []
    domains = [(0.0, 1.0), (-1.0, 1.0), (1.0, 365.0), (-2.0, 0.0), (100.0, 101.0), (-3.5, 0.25), (0.0, 2.5),
               (1000.0, 1001.0), (1990.0, 2020.0), (-4097.0, -4096.0), (1.7e9, 1.7e9 + 3600.0),     # far from the origin
               (0.0, 2.0 ** -30), (3 * 2.0 ** -30, 5 * 2.0 ** -30)]                                # abscissae in small units
    for idx, (p, nf) in enumerate(bs_cases(rng, quick)):
        a, b = domains[idx % len(domains)]
        nseg = nf - p
        m = int(rng.integers(4, 9 if quick else 16))
        inner = np.unique(np.round(rng.uniform(0, 1, size=m) * 256) / 256)
        u = np.unique(np.concatenate([[0.0], inner, [1.0]]))
        if idx % 3 == 0:   # include knots themselves
            u = np.unique(np.concatenate([u, np.arange(nseg + 1) / nseg if nseg & (nseg - 1) == 0 else [0.5]]))
        if idx % 3 != 1:   # points just before and just after the knots (a knot is "reached" only at the knot)
            kn = np.arange(1, nseg + 1) / nseg
            u = np.unique(np.concatenate([u, kn - 2.0 ** -12, kn[:-1] + 2.0 ** -12, kn - 2.0 ** -20]))
            u = u[(u >= 0) & (u <= 1)]
        xs = a + (b - a) * u
        xs[0], xs[-1] = a, b
        if idx % 2 == 1 and len(xs) >= 5:
            xs = xs[1:-1]           # a grid strictly inside the domain: the domain is what was asked for, not the grid's range
        with warnings.catch_warnings():
            warnings.simplefilter("ignore")
            Bm = np.asarray(_basis_bsplines(xs, n_functions=nf, degree=p, domain_min=a, domain_max=b), float)
        key = ("bsplines", p, nf, a, b, xs.tobytes())
        opts = {"family": "bsplines", "degree": p, "n_functions": nf, "domain": [a, b], "n_points": len(xs)}
        tol = 1e-9 * max(1.0, float(nseg) ** p)
        t = runq.add(f"mclose {C.qlit(tol)} (bs_model {C.qlit(a)} {C.qlit(b)} {nseg}%nat {p}%nat {C.qlist(xs)}) {C.qmat(Bm)}")
        todo.append((t, "B-spline basis equals the Cox-de Boor B-splines on the equally spaced extended knots", key, opts, nseg >= 2))
        # Greville: sum_j xi_j B_j(x) = x with xi_j = mean of the knots t_{j+1..j+p} = a + dx (j - p + (p + 1) / 2)
        if Bm.shape == (nf, len(xs)):
            dxk = (b - a) / nseg
            xi = np.array([a + dxk * (j - p + (p + 1) / 2.0) for j in range(nf)])
            t = runq.add(f"vclose {C.qlit(1e-9 * max(1.0, abs(a), abs(b)) * max(1.0, float(nseg) ** p))} "
                         f"(mtv opsQ {len(xs)}%nat {C.qmat(Bm)} {C.qlist(xi)}) {C.qlist(xs)}")
            todo.append((t, "B-splines reproduce the identity with the Greville coefficients", ("greville", p, nf, a, b, xs.tobytes()),
                         opts, nseg >= 2))
            if p >= 2:      # quadratic Marsden identity: sum_j e2(t_{j+1..j+p}) B_j(x) = C(p,2) x^2
                knots = [a + dxk * (k - p) for k in range(nf + p + 1)]
                e2 = np.array([sum(knots[j + i] * knots[j + k] for i in range(1, p + 1) for k in range(i + 1, p + 1)) for j in range(nf)])
                sc2 = max(1.0, abs(a), abs(b)) ** 2 * p * p
                t = runq.add(f"vclose {C.qlit(1e-9 * sc2 * max(1.0, float(nseg) ** p))} "
                             f"(mtv opsQ {len(xs)}%nat {C.qmat(Bm)} {C.qlist(e2)}) {C.qlist(p * (p - 1) / 2.0 * xs * xs)}")
                todo.append((t, "B-splines reproduce x^2 with the second elementary symmetric polynomials of the knots (Marsden)",
                             ("marsden2", p, nf, a, b, xs.tobytes()), opts, nseg >= 2))
        bad = []
        if Bm.shape != (nf, len(xs)):
            bad.append(f"shape {Bm.shape}")
        else:
            if np.min(Bm) < -tol:
                bad.append("negative values")
            if np.max(np.abs(Bm.sum(axis=0) - 1.0)) > 10 * tol:
                bad.append(f"does not sum to one on the domain (max dev {np.max(np.abs(Bm.sum(axis=0) - 1.0)):.3g})")
            if np.max((np.abs(Bm) > 10 * tol).sum(axis=0)) > p + 1:
                bad.append("more than degree+1 non-zero functions at a point")
        if bad:
            rep.violation("B-splines: " + "; ".join(bad), {**opts, "x": C.hexf(xs)})
    # the same grid, size and degree asked for on TWO domains one after the other (the default domain = range of the grid, then a
    # wider explicit one, as PSplines.predict does on a sub-range): each is the Cox-de Boor basis of ITS domain
    for (p, nf) in ((2, 5), (3, 6), (1, 4)):
        xs = np.unique(np.round(rng.uniform(0, 1, size=7) * 64) / 64)
        xs = np.concatenate([[0.0], xs[(xs > 0) & (xs < 1)], [1.0]])
        for (a, b) in ((0.0, 1.0), (-0.5, 1.25), (0.0, 1.0), (0.0, 2.0)):
            with warnings.catch_warnings():
                warnings.simplefilter("ignore")
                Bm = np.asarray(_basis_bsplines(xs, n_functions=nf, degree=p, domain_min=a, domain_max=b), float)
            nseg = nf - p
            t = runq.add(f"mclose {C.qlit(1e-9 * max(1.0, float(nseg) ** p))} (bs_model {C.qlit(a)} {C.qlit(b)} {nseg}%nat {p}%nat {C.qlist(xs)}) {C.qmat(Bm)}")
            todo.append((t, "B-spline basis equals the Cox-de Boor B-splines on the equally spaced extended knots (same grid, several domains in a row)",
                         ("bsplines-domains", p, nf, a, b, xs.tobytes(), len(todo)),
                         {"family": "bsplines", "degree": p, "n_functions": nf, "domain": [a, b], "n_points": len(xs)}, True))
    # Legendre vs Bonnet
    for n in ([1, 3, 6] if quick else range(1, 16)):
        xs = np.round(rng.uniform(-1, 1, size=7) * 128) / 128
        L = np.asarray(_basis_legendre(xs, n), float)
        t = runq.add(f"mclose {C.qlit(1e-11)} (legendre_basis opsQ {n}%nat {C.qlist(xs)}) {C.qmat(L)}")
        todo.append((t, "Legendre basis equals Bonnet's recurrence", ("legendre", n, xs.tobytes()),
                     {"family": "legendre", "n_functions": n}, n >= 3))
    # Basis class: intercept, normalisation, tensor products
    grid1 = np.linspace(0, 1, 11)
    grid2 = np.round(np.sort(rng.uniform(-1, 1, size=6)) * 64) / 64
    grid2 = np.unique(np.concatenate([[-1.0], grid2, [1.0]]))
    fams = ["bsplines", "legendre", "fourier", "wiener"]
    grid3 = np.unique(np.round(np.sort(rng.uniform(2, 9, size=int(rng.integers(7, 14)))) * 32) / 32)   # non-uniform, shifted
    for f1 in fams:
        n1 = 5 if f1 == "bsplines" else 3
        # the normalisation option on non-uniform grids (odd and even numbers of points)
        from scipy.integrate import simpson
        for gname, gg in (("non-uniform [-1,1]", grid2), ("non-uniform shifted", grid3)):
            if len(gg) < 4:
                continue
            with warnings.catch_warnings():
                warnings.simplefilter("ignore")
                raw = np.asarray(Basis(name=f1, n_functions=n1, argvals=DenseArgvals({"input_dim_0": gg})).values, float)
                nor = np.asarray(Basis(name=f1, n_functions=n1, argvals=DenseArgvals({"input_dim_0": gg}),
                                       is_normalized=True).values, float)
            rep.case(("basis-norm", f1, gg.tobytes()), kind=f"Basis-normalised/{f1}/{gname}",
                     sample={"family": f1, "n_functions": n1, "grid": gname, "n_points": len(gg)})
            nn = simpson(raw * raw, x=gg)
            if np.all(nn > 1e-12):
                badn = []
                # exact: every normalised function has squared Simpson norm 1 under the model of the rule
                t = runq.add("forallb (fun f => qclose " + C.qlit(1e-9) + f" (simpson opsQ {C.qlist(gg)} (vmul opsQ f f)) 1) {C.qmat(nor)}")
                todo.append((t, "normalised basis functions have unit Simpson norm (exact model of the rule)",
                             ("basis-norm-exact", f1, gg.tobytes()), {"family": f1, "n_functions": n1, "grid": gname}, True))
                if np.max(np.abs(simpson(nor * nor, x=gg) - 1.0)) > 1e-9:
                    badn.append("is_normalized=True does not give unit (Simpson) norms")
                if np.max(np.abs(nor - raw / np.sqrt(nn)[:, None])) > 1e-9 * max(1.0, float(np.max(np.abs(nor)))):
                    badn.append("normalised functions are not the functions divided by their norms")
                if badn:
                    rep.violation(f"Basis({f1}) on a {gname} grid: " + "; ".join(badn),
                                  {"family": f1, "n_functions": n1, "grid": C.hexf(gg)})
        g1 = grid1
        with warnings.catch_warnings():
            warnings.simplefilter("ignore")
            b_full = np.asarray(Basis(name=f1, n_functions=n1, argvals=DenseArgvals({"input_dim_0": g1})).values, float)
            b_noint = np.asarray(Basis(name=f1, n_functions=n1, argvals=DenseArgvals({"input_dim_0": g1}),
                                       add_intercept=False).values, float)
            b_ext = np.asarray(Basis(name=f1, n_functions=n1 + 1, argvals=DenseArgvals({"input_dim_0": g1})).values, float)
            b_norm = np.asarray(Basis(name=f1, n_functions=n1, argvals=DenseArgvals({"input_dim_0": g1}),
                                      is_normalized=True).values, float)
        rep.case(("basis-class", f1), kind=f"Basis/{f1}", sample={"family": f1, "n_functions": n1})
        bad = []
        if b_noint.shape != (n1, len(g1)) or np.max(np.abs(b_noint - b_ext[1:])) > 1e-12:
            bad.append("add_intercept=False does not remove exactly the first function")
        from scipy.integrate import simpson
        nrm = simpson(b_norm * b_norm, x=g1)
        if np.max(np.abs(nrm - 1.0)) > 1e-9:
            bad.append("is_normalized=True does not give unit (Simpson) norms")
        with warnings.catch_warnings():
            warnings.simplefilter("ignore")
            b_norm_noint = np.asarray(Basis(name=f1, n_functions=n1, argvals=DenseArgvals({"input_dim_0": g1}),
                                            is_normalized=True, add_intercept=False).values, float)
        nrm2 = simpson(b_norm_noint * b_norm_noint, x=g1)
        if np.max(np.abs(nrm2 - 1.0)) > 1e-9:
            bad.append("is_normalized=True with add_intercept=False does not give unit (Simpson) norms")
        ref = b_ext[1:] / np.sqrt(simpson(b_ext[1:] * b_ext[1:], x=g1))[:, None]
        if b_norm_noint.shape != ref.shape or np.max(np.abs(b_norm_noint - ref)) > 1e-9:
            bad.append("normalised basis without intercept is not the basis without intercept, normalised")
        if bad:
            rep.violation(f"Basis({f1}): " + "; ".join(bad), {"family": f1, "n_functions": n1})
        # same family, same size, two DIFFERENT grids with the same number of points (nothing but the grids tells them apart)
        g_same = np.unique(np.round(np.sort(rng.uniform(-2, 3, size=4 * len(g1))) * 64) / 64)[: len(g1)]
        if len(g_same) == len(g1):
            with warnings.catch_warnings():
                warnings.simplefilter("ignore")
                b_other = np.asarray(Basis(name=f1, n_functions=n1, argvals=DenseArgvals({"input_dim_0": g_same})).values, float)
                bb_s = np.asarray(Basis(name=(f1, f1), n_functions=(n1, n1),
                                        argvals=DenseArgvals({"input_dim_0": g1, "input_dim_1": g_same})).values, float)
            flat_s = bb_s.reshape(bb_s.shape[0], -1)
            sc_s = max(1.0, float(np.max(np.abs(flat_s))))
            t = runq.add(f"mclose {C.qlit(1e-12 * sc_s)} (tensor_basis opsQ {C.qmat(b_full)} {C.qmat(b_other)}) {C.qmat(flat_s)}")
            todo.append((t, "2-D basis is the row-major tensor product of the marginal bases", ("tensor-same-shape", f1),
                         {"family": [f1, f1], "n_functions": [n1, n1], "grids": "different, equal length"}, True))
        for f2 in fams:
            n2 = 4 if f2 == "bsplines" else 2
            with warnings.catch_warnings():
                warnings.simplefilter("ignore")
                b2 = np.asarray(Basis(name=f2, n_functions=n2, argvals=DenseArgvals({"input_dim_0": grid2})).values, float)
                bb = np.asarray(Basis(name=(f1, f2), n_functions=(n1, n2),
                                      argvals=DenseArgvals({"input_dim_0": g1, "input_dim_1": grid2})).values, float)
            flat = bb.reshape(bb.shape[0], -1)
            sc = max(1.0, float(np.max(np.abs(flat))))
            t = runq.add(f"mclose {C.qlit(1e-12 * sc)} (tensor_basis opsQ {C.qmat(b_full)} {C.qmat(b2)}) {C.qmat(flat)}")
            todo.append((t, "2-D basis is the row-major tensor product of the marginal bases", ("tensor", f1, f2),
                         {"family": [f1, f2], "n_functions": [n1, n2]}, True))
    # transcendental families: closed forms and orthonormality by quadrature
    fine01 = np.linspace(0, 1, 2001)
    # (the last two grids are NOT equally spaced: the phase is a function of the location, not of the index)
    for grid in (fine01, np.linspace(1, 365, 2001), np.linspace(-2, 5, 2001), 3.0 * fine01 ** 2 - 1.0,
                 np.unique(np.concatenate([[0.0, 10.0], np.round(rng.uniform(0, 10, size=1500) * 4096) / 4096]))):
        nfun = 7 if quick else 15
        F = np.asarray(_basis_fourier(grid, nfun), float)
        G = np.trapz(F[:, None, :] * F[None, :, :], grid, axis=2)
        rep.case(("fourier", grid[0], grid[-1]), kind="orthonormality/fourier", sample={"family": "fourier", "interval": [grid[0], grid[-1]]})
        bad = []
        # trapezoid error ~ h_max^2: the tolerance 1e-5 is for 2000 equal steps
        qtol = 1e-5 * max(1.0, float(np.max(np.diff(grid))) / (float(np.ptp(grid)) / 2000)) ** 2
        if np.max(np.abs(G - np.eye(nfun))) > qtol:
            bad.append(f"not orthonormal on the interval spanned by the grid (max dev {np.max(np.abs(G - np.eye(nfun))):.3g})")
        L = grid[-1] - grid[0]
        for k in range(nfun):
            if k == 0:
                ref = np.full_like(grid, 1 / math.sqrt(L))
            else:
                xx = 2 * np.pi * (grid - grid[0]) / L - np.pi
                ref = math.sqrt(2 / L) * (np.cos(((k + 1) // 2) * xx) if k % 2 else np.sin(((k + 1) // 2) * xx))
            if np.max(np.abs(F[k] - ref)) > 1e-9:
                bad.append(f"function {k} differs from its closed form")
                break
        if bad:
            rep.violation("Fourier basis: " + "; ".join(bad), {"interval": [float(grid[0]), float(grid[-1])]})
    nfun = 7 if quick else 15
    W = np.asarray(_basis_wiener(fine01, nfun), float)
    G = np.trapz(W[:, None, :] * W[None, :, :], fine01, axis=2)
    rep.case(("wiener",), kind="orthonormality/wiener", sample={"family": "wiener"})
    bad = []
    if np.max(np.abs(G - np.eye(nfun))) > 1e-4:
        bad.append(f"not orthonormal on [0,1] (max dev {np.max(np.abs(G - np.eye(nfun))):.3g})")
    for k in range(1, nfun + 1):
        if np.max(np.abs(W[k - 1] - math.sqrt(2) * np.sin((k - 0.5) * np.pi * fine01))) > 1e-9:
            bad.append(f"function {k} differs from sqrt(2) sin((k-1/2) pi t)")
            break
    if bad:
        rep.violation("Wiener basis: " + "; ".join(bad), {})
    fine11 = np.linspace(-1, 1, 4001)
    Lg = np.asarray(_basis_legendre(fine11, nfun), float)
    G = np.trapz(Lg[:, None, :] * Lg[None, :, :], fine11, axis=2)
    rep.case(("legendre-orth",), kind="orthogonality/legendre", sample={"family": "legendre"})
    off = G - np.diag(np.diag(G))
    if np.max(np.abs(off)) > 1e-4 or np.max(np.abs(np.diag(G) - 2 / (2 * np.arange(nfun) + 1))) > 1e-4:
        rep.violation("Legendre polynomials are not orthogonal on [-1,1] with norms 2/(2k+1)", {"max_offdiag": float(np.max(np.abs(off)))})
    res = runq.run()
    for t, what, key, opts, nontriv in todo:
        rep.case(key, nontrivial=nontriv, kind=str(opts["family"]), sample={**opts, "claim": what})
        if not res[t]:
            rep.disagreements_checked += 1
            rep.violation(what + " — fails", {**opts, "claim": what})
