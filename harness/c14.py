"""C14 — changing representation does not change the data."""
from __future__ import annotations

import itertools
import os
import tempfile
import warnings

import numpy as np

from harness import common as C
from harness import fd

IMPORTS = "From FDAV Require Import Base.Num Base.Vec Base.Quad Base.Cmp Model.Repr Tie.C14."
RULE = ("basis-expansion data for all four families (1-D, sizes 3..6; 2-D tensor combinations) with dyadic coefficient matrices: to_grid vs "
        "the exact Q model, coefficient Gram matrix vs the model's c G c', and every statistic computed on the expansion vs the same "
        "statistic on the evaluated curves (norm with trapz THEN simpson on the same object, inner products, mean, centring, normalisation, "
        "rescaling weight, covariance up to n/(n-1)); to_basis().to_grid() vs P-spline smoothing with the same settings, exact recovery of "
        "curves and coefficients in the spline space with zero penalty; long tables of dense 1-D / 2-D and irregular data vs the model's "
        "row-major enumeration; read_csv on generated files (integer / non-integer headers, every missingness pattern of small tables "
        "incl. entirely empty columns, random beyond) vs the model's decisions. Non-trivial: >= 2 observations; distinct by inputs.")
ASSUME = ["exact-arithmetic model; the basis values and the basis Gram matrix (trapezoid) of the implementation are inputs of the model",
          "tolerance 1e-9*scale for statistics; CSV and long-format comparisons are exact"]


def basis_part(rep, rng, runq, todo, quick):
    from FDApy.representation.basis import Basis
    from FDApy.representation.functional_data import BasisFunctionalData
    from FDApy.representation.argvals import DenseArgvals
    fams = ["fourier", "bsplines", "legendre", "wiener"]
    grids = [np.linspace(0, 1, 21), np.unique(np.concatenate([[0, 1], np.round(np.sort(np.random.default_rng(3).uniform(0, 1, 17)) * 64) / 64]))]
    grids.append(np.unique(np.round(np.concatenate([[2.0, 5.0], np.sort(rng.uniform(2, 5, 14))]) * 32) / 32))   # domain != [0,1]
    for fam, gi in itertools.product(fams, range(3)):
        t = grids[gi]
        K = 4 if fam == "bsplines" else int(rng.integers(3, 6))
        n = int(rng.integers(2, 6))
        coef = fd.dyadic_matrix(rng, n, K) + (1.0 if gi else 0.0)
        with warnings.catch_warnings():
            warnings.simplefilter("ignore")
            basis = Basis(name=fam, n_functions=K, argvals=DenseArgvals({"input_dim_0": t}))
            bd = BasisFunctionalData(basis=basis, coefficients=coef.copy())
            Phi = np.asarray(basis.values, float)
            grid_vals = np.asarray(bd.to_grid().values, float)
        sc = max(1.0, float(np.max(np.abs(grid_vals))))
        key = ("basis", fam, gi, coef.tobytes())
        opts = {"part": "basis", "family": fam, "grid": ["uniform", "non-uniform", "non-uniform on [2,5]"][gi], "n_functions": K, "n_obs": n}
        tq = runq.add(f"mclose {C.qlit(1e-10 * sc)} (to_grid opsQ {len(t)}%nat {C.qmat(Phi)} {C.qmat(coef)}) {C.qmat(grid_vals)}")
        todo.append((tq, "to_grid = coefficients times basis functions", key, opts))
        dgrid = fd.dense(t, grid_vals)
        bad = []
        try:
            with warnings.catch_warnings():
                warnings.simplefilter("ignore")
                # norms with two integration rules IN SEQUENCE on the same object
                for meth in ("trapz", "simpson", "trapz"):
                    nb_ = np.asarray(bd.norm(squared=True, method_integration=meth), float)
                    ng_ = np.asarray(dgrid.norm(squared=True, method_integration=meth), float)
                    if np.max(np.abs(nb_ - ng_)) > 1e-8 * sc * sc:
                        bad.append(f"squared norm ({meth}) from coefficients differs from the evaluated curves by {np.max(np.abs(nb_ - ng_)):.3g}")
                G = np.asarray(basis.inner_product(method_integration="trapz"), float)
                ip = np.asarray(bd.inner_product(method_integration="trapz"), float)
                tq = runq.add(f"mclose {C.qlit(1e-9 * sc * sc)} (coef_gram opsQ {C.qmat(G)} {C.qmat(coef)}) {C.qmat(ip)}")
                todo.append((tq, "inner-product matrix = C G C^T", key, opts))
                ref = np.array([[np.trapz(grid_vals[i] * grid_vals[j], t) for j in range(n)] for i in range(n)])
                if np.max(np.abs(ip - ref)) > 1e-8 * sc * sc:
                    bad.append("inner products from coefficients differ from those of the evaluated curves")
                ipc = np.asarray(bd.center().inner_product(), float)
                ipg = np.asarray(dgrid.inner_product(noise_variance=0), float)
                if np.max(np.abs(ipc - ipg)) > 1e-8 * sc * sc:
                    bad.append("Gram matrix of centred expansion differs from the Gram matrix of the evaluated curves")
                if np.max(np.abs(np.asarray(bd.mean().to_grid().values) - np.asarray(dgrid.mean().values))) > 1e-9 * sc:
                    bad.append("mean does not commute with evaluation")
                if np.max(np.abs(np.asarray(bd.center().to_grid().values) - np.asarray(dgrid.center().values))) > 1e-9 * sc:
                    bad.append("centering does not commute with evaluation")
                if np.all(np.asarray(dgrid.norm()) > 1e-8):
                    if np.max(np.abs(np.asarray(bd.normalize().to_grid().values) - np.asarray(dgrid.normalize().values))) > 1e-8 * sc:
                        bad.append("normalisation does not commute with evaluation")
                    # (use_argvals_stand is documented as "not used" by the norm of basis-expansion data: not compared)
                    for kwn in ({"method_integration": "simpson"},):
                        nbv = np.asarray(BasisFunctionalData(basis=basis, coefficients=coef.copy()).normalize(**kwn).to_grid().values)
                        ngv = np.asarray(dgrid.normalize(**kwn).values)
                        if np.max(np.abs(nbv - ngv)) > 1e-8 * sc:
                            bad.append(f"normalisation {kwn} does not commute with evaluation (max deviation {np.max(np.abs(nbv - ngv)):.3g})")
                for kw in ({}, {"use_argvals_stand": True}, {"method_integration": "simpson"}):
                    rb_, wb = BasisFunctionalData(basis=basis, coefficients=coef.copy()).rescale(**kw)
                    rg_, wg = dgrid.rescale(**kw)
                    wb, wg = float(wb), float(wg)
                    if abs(wb - wg) > 1e-8 * sc * sc * max(1.0, float(np.ptp(t))):
                        bad.append(f"rescaling weight {kw} from coefficients {wb!r} differs from the evaluated curves {wg!r}")
                    elif wg > 1e-12 and np.max(np.abs(np.asarray(rb_.to_grid().values) - np.asarray(rg_.values))) > 1e-8 * sc / min(1.0, np.sqrt(wg)):
                        bad.append(f"rescaling {kw} does not commute with evaluation")
                if n >= 2:
                    cbraw = np.asarray(bd.covariance().to_grid().values)[0]
                    for (s_, t_) in ((0, len(t) - 1), (len(t) // 2, len(t) // 3)):
                        tq = runq.add(f"qclose {C.qlit(1e-9 * sc * sc)} (cov_coef_at opsQ {K}%nat {C.qmat(Phi)} {C.qmat(coef)} "
                                      f"{s_}%nat {t_}%nat) {C.qlit(cbraw[s_, t_])}")
                        todo.append((tq, "covariance from coefficients = phi(s)^T (Cc^T Cc / n) phi(t)", key, opts))
                    cb = np.asarray(bd.covariance().to_grid().values)[0] * n / (n - 1)
                    cg = np.asarray(dgrid.covariance().values)[0]
                    if np.max(np.abs(cb - cg)) > 1e-8 * sc * sc:
                        bad.append("covariance from coefficients (times n/(n-1)) differs from the evaluated curves")
        except ModuleNotFoundError as e:
            rep.notes.append(f"basis statistics skipped ({fam}): {e}")
        if bad:
            rep.violation(f"basis expansion ({fam}): " + "; ".join(bad), {**opts, "coefficients": C.hexf(coef), "grid_points": C.hexf(t)})
    # 2-D: values are tensor products; to_grid in 2-D
    t1, t2 = np.linspace(0, 1, 6), np.array([0.0, 0.25, 0.5, 1.0])
    for f1, f2 in (("fourier", "legendre"), ("bsplines", "wiener")):
        n1 = 4 if f1 == "bsplines" else 3
        coef = fd.dyadic_matrix(rng, 3, n1 * 2)
        with warnings.catch_warnings():
            warnings.simplefilter("ignore")
            b2 = Basis(name=(f1, f2), n_functions=(n1, 2), argvals=DenseArgvals({"input_dim_0": t1, "input_dim_1": t2}))
            bd2 = BasisFunctionalData(basis=b2, coefficients=coef.copy())
            Phi = np.asarray(b2.values, float).reshape(n1 * 2, -1)
            gv = np.asarray(bd2.to_grid().values, float).reshape(3, -1)
        sc = max(1.0, float(np.max(np.abs(gv))))
        tq = runq.add(f"mclose {C.qlit(1e-10 * sc)} (to_grid opsQ {Phi.shape[1]}%nat {C.qmat(Phi)} {C.qmat(coef)}) {C.qmat(gv)}")
        todo.append((tq, "2-D to_grid = coefficients times tensor basis functions", ("basis2d", f1, f2, coef.tobytes()),
                     {"part": "basis-2D", "family": [f1, f2], "n_obs": 3}))
        # statistics commute with evaluation in 2-D as well (the covariance of 2-D data is not defined for dense data either)
        g2 = fd.dense([t1, t2], np.asarray(bd2.to_grid().values, float))
        bad2 = []

        def fresh2():
            return BasisFunctionalData(basis=Basis(name=(f1, f2), n_functions=(n1, 2),
                                                   argvals=DenseArgvals({"input_dim_0": t1, "input_dim_1": t2})), coefficients=coef.copy())
        try:
            with warnings.catch_warnings():
                warnings.simplefilter("ignore")
                if np.max(np.abs(np.asarray(fresh2().norm(squared=True)) - np.asarray(g2.norm(squared=True)))) > 1e-9 * sc * sc:
                    bad2.append("squared norms from coefficients differ from those of the evaluated images")
                ipb = np.asarray(fresh2().inner_product(), float)
                ref = np.array([[np.trapz(np.trapz(np.asarray(g2.values)[i] * np.asarray(g2.values)[j], t2, axis=1), t1)
                                 for j in range(3)] for i in range(3)])
                if np.max(np.abs(ipb - ref)) > 1e-9 * sc * sc:
                    bad2.append("inner products from coefficients differ from those of the evaluated images")
                if np.max(np.abs(np.asarray(fresh2().mean().to_grid().values) - np.asarray(g2.mean().values))) > 1e-10 * sc:
                    bad2.append("mean does not commute with evaluation")
                if np.max(np.abs(np.asarray(fresh2().center().to_grid().values) - np.asarray(g2.center().values))) > 1e-10 * sc:
                    bad2.append("centering does not commute with evaluation")
                if np.all(np.asarray(g2.norm()) > 1e-8) and \
                        np.max(np.abs(np.asarray(fresh2().normalize().to_grid().values) - np.asarray(g2.normalize().values))) > 1e-9 * sc:
                    bad2.append("normalisation does not commute with evaluation")
                for kw in ({}, {"use_argvals_stand": True}):
                    wb2, wg2 = float(fresh2().rescale(**kw)[1]), float(g2.rescale(**kw)[1])
                    if abs(wb2 - wg2) > 1e-9 * max(1.0, abs(wg2)):
                        bad2.append(f"rescaling weight {kw} from coefficients {wb2!r} differs from the evaluated images {wg2!r}")
        except Exception as e:  # noqa: BLE001
            bad2.append(f"a statistic of 2-D basis data raised {type(e).__name__}: {str(e)[:100]}")
        rep.case(("basis2d-stats", f1, f2, coef.tobytes()), kind="basis-2D/statistics")
        if bad2:
            rep.violation(f"2-D basis expansion ({f1} x {f2}): " + "; ".join(bad2),
                          {"family": [f1, f2], "coefficients": C.hexf(coef)})


def spline_part(rep, rng, quick):
    from FDApy.misc.basis import _basis_bsplines
    fd.dtype_monitor(rep, rng, {
        "to_long()": lambda d: d.to_long().values.astype(float),
        "to_basis(PS).to_grid()": lambda d: d.to_basis(n_segments=3, degree=2, penalty=1.0).to_grid().values,
        "smooth(PS)": lambda d: d.smooth(method="PS", n_segments=3, degree=2, penalty=1.0).values,
        "smooth(LP)": lambda d: d.smooth(method="LP", bandwidth=6.0).values}, "representation changes / smoothing")
    for i in range(3 if quick else 20):
        m = int(rng.integers(12, 25))
        t = np.linspace(0, 1, m) if i % 2 == 0 else np.unique(np.concatenate([[0, 1], np.round(rng.uniform(0, 1, m) * 128) / 128]))
        nseg, deg = int(rng.integers(2, 6)), int(rng.integers(1, 4))
        n = 3
        X = np.round((np.sin(5 * t)[None, :] + rng.normal(size=(n, len(t))) * 0.2) * 256) / 256 + 1.0
        d = fd.dense(t, X)
        kw = dict(n_segments=nseg, degree=deg)
        if i % 3 == 1:
            kw["order_penalty"] = 1          # "the same settings" includes every smoothing keyword that is forwarded
        elif i % 3 == 2:
            kw["order_penalty"] = 3
            kw["n_segments"] = max(nseg, 3)
        with warnings.catch_warnings():
            warnings.simplefilter("ignore")
            a = np.asarray(d.to_basis(penalty=2.0, **kw).to_grid().values, float)
            b = np.asarray(d.smooth(method="PS", penalty=2.0, **kw).values, float)
        nseg = kw["n_segments"]
        kw = dict(n_segments=nseg, degree=deg)
        rep.case(("to_basis", X.tobytes(), nseg, deg), kind="to_basis=PS-smoothing",
                 sample={"part": "to_basis", "n_segments": nseg, "degree": deg, "n_points": len(t)})
        info = {"t": C.hexf(t), "X": C.hexf(X), "n_segments": nseg, "degree": deg}
        if np.max(np.abs(a - b)) > 1e-9 * max(1.0, np.max(np.abs(X))):
            rep.violation(f"to_basis().to_grid() differs from P-spline smoothing with the same settings by {np.max(np.abs(a - b)):.3g}", info)
        # irregular data in the per-curve encoding, with curves that start late / stop early / miss interior points:
        # the expansion lives on the common domain, exactly as the P-spline smoother
        if len(t) >= 10:
            masks = np.ones((n, len(t)), bool)
            masks[0, :3] = False
            masks[1, -3:] = False
            masks[2, [4, 5]] = False
            irr = fd.irregular([t[masks[k]] for k in range(n)], [X[k][masks[k]] for k in range(n)])
            try:
                with warnings.catch_warnings():
                    warnings.simplefilter("ignore")
                    ai = np.asarray(irr.to_basis(penalty=2.0, **kw).to_grid().values, float)
                    bi = np.asarray(irr.smooth(method="PS", penalty=2.0, **kw).values, float)
                rep.case(("to_basis-irregular", X.tobytes(), nseg, deg), kind="to_basis=PS-smoothing/irregular")
                if ai.shape != bi.shape or not np.all(np.isfinite(ai)) or np.max(np.abs(ai - bi)) > 1e-8 * max(1.0, np.max(np.abs(X))):
                    rep.violation("irregular data (curves starting late / stopping early): to_basis().to_grid() differs from P-spline "
                                  f"smoothing with the same settings by {np.max(np.abs(ai - bi)) if ai.shape == bi.shape else 'shape'}",
                                  {**info, "mask": masks.astype(int).tolist()})
            except Exception as e:  # noqa: BLE001
                rep.violation(f"irregular to_basis / smooth(PS) raised {type(e).__name__}: {e}"[:300], {**info, "mask": masks.astype(int).tolist()})
            # the same curves in the sparsifier's encoding (common grid, NaN at the missing cells): changing representation must
            # leave the dataset it was asked about exactly as it was (the missing cells stay missing), and give the same expansion
            irn = fd.irregular([t.copy() for _ in range(n)], [np.where(masks[k], X[k], np.nan) for k in range(n)])
            try:
                keys = list(irn.values.keys())
                before = [np.array(irn.values[k], dtype=float, copy=True) for k in keys]
                with warnings.catch_warnings():
                    warnings.simplefilter("ignore")
                    an = np.asarray(irn.to_basis(penalty=2.0, **kw).to_grid().values, float)
                after = [np.asarray(irn.values[k], dtype=float) for k in keys]
                rep.case(("to_basis-irregular-nan", X.tobytes(), nseg, deg), kind="to_basis/irregular-NaN-encoding")
                changed = sum(int(np.sum(~((b == a) | (np.isnan(b) & np.isnan(a))))) for b, a in zip(before, after))
                if list(irn.values.keys()) != keys or changed:
                    rep.violation(f"to_basis changed the irregular dataset it was called on: {changed} stored cells differ afterwards "
                                  f"({sum(int(np.isnan(b).sum()) for b in before)} missing cells before, "
                                  f"{sum(int(np.isnan(a).sum()) for a in after)} after)", {**info, "mask": masks.astype(int).tolist()})
                elif "ai" in locals() and (an.shape != ai.shape or not np.all(np.isfinite(an))
                                           or np.max(np.abs(an - ai)) > 1e-7 * max(1.0, np.max(np.abs(X)))):
                    rep.violation("irregular data: the expansion of the NaN-on-common-grid encoding differs from the expansion of the "
                                  f"per-curve encoding of the same samples by {np.max(np.abs(an - ai)) if an.shape == ai.shape else 'shape'}",
                                  {**info, "mask": masks.astype(int).tolist()})
            except Exception as e:  # noqa: BLE001
                rep.violation(f"irregular (NaN-encoded) to_basis raised {type(e).__name__}: {e}"[:300], {**info, "mask": masks.astype(int).tolist()})
        # curves in the spline space, zero penalty: curves and coefficients are returned exactly
        with warnings.catch_warnings():
            warnings.simplefilter("ignore")
            B = np.asarray(_basis_bsplines(t, n_functions=nseg + deg, degree=deg, domain_min=t[0], domain_max=t[-1]), float)
        if len(t) >= nseg + deg + 2 and np.linalg.cond(B @ B.T) < 1e8:
            beta0 = np.round(rng.normal(size=(n, nseg + deg)) * 8) / 8
            Y = beta0 @ B
            with warnings.catch_warnings():
                warnings.simplefilter("ignore")
                bb = fd.dense(t, Y).to_basis(penalty=0.0, **kw)
            rep.case(("in-space", Y.tobytes()), kind="to_basis-exact-in-spline-space")
            e1 = float(np.max(np.abs(np.asarray(bb.coefficients) - beta0)))
            e2 = float(np.max(np.abs(np.asarray(bb.to_grid().values) - Y)))
            if e1 > 1e-6 or e2 > 1e-8:
                rep.violation(f"zero-penalty expansion of curves lying in the spline space: coefficients off by {e1:.3g}, curves by {e2:.3g}",
                              {**info, "beta0": C.hexf(beta0)})


def long_part(rep, rng, runq, todo, quick):
    for i in range(3 if quick else 20):
        n, m = int(rng.integers(1, 5)), int(rng.integers(2, 6))
        t = fd.grid(rng, m, "nonuniform")
        X = fd.dyadic_matrix(rng, n, m)
        if i % 3 == 1:
            X = np.asfortranarray(X)                          # column-major storage
        elif i % 3 == 2:
            X = fd.dyadic_matrix(rng, m, n).T                 # a transposed view (not C-contiguous)
        L = fd.dense_raw(t, X).to_long()
        ids = L["id"].to_numpy()
        pts = np.array([int(np.flatnonzero(t == v)[0]) for v in L["input_dim_0"].to_numpy()])
        tq = runq.add(f"long_ok 0 {m}%nat {C.qmat(X)} {C.natlist(ids)} {C.natlist(pts)} {C.qlist(L['values'].to_numpy())}")
        todo.append((tq, "dense long table lists every (observation, point, value) once, row-major", ("long", X.tobytes()),
                     {"part": "to_long", "n_obs": n, "n_points": m}))
        # 2-D dense and irregular: monitors
        m2 = 3
        t2 = np.array([0.0, 0.5, 2.0])
        X2 = fd.dyadic_matrix(rng, n, m * m2).reshape(n, m, m2)
        if i % 2 == 1:
            X2 = np.moveaxis(fd.dyadic_matrix(rng, m2, n * m).reshape(m2, n, m), 0, -1)     # a strided view of another array
        L2 = fd.dense_raw([t, t2], X2).to_long()
        rep.case(("long2d", X2.tobytes()), kind="to_long/2-D")
        ok = len(L2) == n * m * m2
        if ok:
            for _, r in L2.iterrows():
                i0, j0, k0 = int(r["id"]), int(np.flatnonzero(t == r["input_dim_0"])[0]), int(np.flatnonzero(t2 == r["input_dim_1"])[0])
                ok &= (r["values"] == X2[i0, j0, k0])
            ok &= len(L2.drop_duplicates(["id", "input_dim_0", "input_dim_1"])) == len(L2)
        if not ok:
            rep.violation("2-D long table does not list every (observation, point, value) exactly once", {"X2": C.hexf(X2)})
        mask = rng.uniform(size=(n, m)) < 0.7
        mask[:, 0] = True
        irr = fd.irregular([t[mask[k]] for k in range(n)], [X[k][mask[k]] for k in range(n)])
        Li = irr.to_long()
        rep.case(("longirr", X.tobytes(), mask.tobytes()), kind="to_long/irregular")
        want = [(k, t[j], X[k, j]) for k in range(n) for j in range(m) if mask[k, j]]
        got = list(zip(Li["id"].to_numpy().tolist(), Li["input_dim_0"].to_numpy().tolist(), Li["values"].to_numpy().tolist()))
        if sorted(got) != sorted(want) or len(got) != len(want):
            rep.violation("irregular long table does not list exactly the observed samples", {"X": C.hexf(X), "mask": mask.astype(int).tolist()})
        # observation labels that are not 0..n-1 (a selection by an index array; labels given by the user): the table lists the
        # observations under their labels, and under their positions with reindex=True
        if n >= 2:
            from FDApy.representation.functional_data import IrregularFunctionalData
            from FDApy.representation.argvals import DenseArgvals, IrregularArgvals
            from FDApy.representation.values import IrregularValues
            labels = [10 + 7 * k + (k % 2) for k in range(n)]
            lab = IrregularFunctionalData(
                IrregularArgvals({labels[k]: DenseArgvals({"input_dim_0": t[mask[k]].copy()}) for k in range(n)}),
                IrregularValues({labels[k]: X[k][mask[k]].copy() for k in range(n)}))
            rows = np.array(sorted(set([n - 1, 0] + ([n // 2] if n > 2 else []))))
            for what, obj, ids in (("user labels", lab, labels), ("index-array selection", irr[rows], [int(r) for r in rows])):
                src = [int(np.flatnonzero(np.array(labels) == i_)[0]) for i_ in ids] if what == "user labels" else [int(r) for r in rows]
                for reindex in (False, True):
                    try:
                        Lr = obj.to_long(reindex=reindex)
                    except Exception as e:  # noqa: BLE001
                        rep.violation(f"irregular to_long(reindex={reindex}) raised {type(e).__name__}: {e} ({what})"[:300],
                                      {"X": C.hexf(X), "mask": mask.astype(int).tolist(), "labels": ids})
                        continue
                    want_r = [((pos if reindex else ids[pos]), t[j], X[k, j]) for pos, k in enumerate(src) for j in range(m) if mask[k, j]]
                    got_r = list(zip(Lr["id"].to_numpy().tolist(), Lr["input_dim_0"].to_numpy().tolist(), Lr["values"].to_numpy().tolist()))
                    rep.case(("longirr-labels", what, reindex, X.tobytes(), mask.tobytes()), kind="to_long/irregular-labels")
                    if sorted(got_r) != sorted(want_r):
                        rep.violation(f"irregular long table ({what}, reindex={reindex}) does not list the observed samples under the "
                                      f"{'positions' if reindex else 'labels'} of their observations",
                                      {"X": C.hexf(X), "mask": mask.astype(int).tolist(), "labels": ids, "reindex": reindex})


def csv_part(rep, rng, runq, todo, quick):
    from FDApy.misc.loader import read_csv
    from FDApy.representation.functional_data import DenseFunctionalData
    tables = []
    # every missingness pattern of 2 x 3 tables leaving >= 1 value per row (incl. entirely empty columns)
    for pat in itertools.product([0, 1], repeat=6):
        mk = np.array(pat, dtype=bool).reshape(2, 3)
        if mk.all(axis=1).any():          # a row without any value
            continue
        tables.append(mk)
    if quick:
        tables = [tables[k] for k in sorted(rng.choice(len(tables), size=14, replace=False))] + [np.zeros((2, 3), bool)]
    for _ in range(4 if quick else 40):
        r, c = int(rng.integers(2, 5)), int(rng.integers(2, 6))
        mk = rng.uniform(size=(r, c)) < 0.3
        for k in range(r):
            if mk[k].all():
                mk[k, 0] = False
        tables.append(mk)
    tmpdir = tempfile.mkdtemp(prefix="c14_", dir=C._scratch())
    # integer column labels may be negative or signed (days before / after an event): they are the abscissae all the same
    for hi, hdr_i in enumerate(([-18, -12, -6, 0, 6, 12], [-3, -1, 4], [-7, -2])):
        for with_missing in (False, True):
            r, c = 3, len(hdr_i)
            vals = fd.dyadic_matrix(rng, r, c)
            mk = np.zeros((r, c), bool)
            if with_missing:
                mk[1, 0] = mk[2, c - 1] = True
            path = os.path.join(tmpdir, f"neg{hi}_{int(with_missing)}.csv")
            with open(path, "w") as fh:
                fh.write(",".join(("+" + str(v) if (v > 0 and hi == 1) else str(v)) for v in hdr_i) + "\n")
                for k in range(r):
                    fh.write(",".join("" if mk[k, j] else repr(float(vals[k, j])) for j in range(c)) + "\n")
            rep.case(("csv-negative-labels", hi, with_missing), kind="read_csv/negative-integer-labels")
            try:
                with warnings.catch_warnings():
                    warnings.simplefilter("ignore")
                    out = read_csv(path)
                if isinstance(out, DenseFunctionalData):
                    got = [list(zip(np.asarray(out.argvals["input_dim_0"]).tolist(), np.asarray(out.values)[k].tolist())) for k in range(out.n_obs)]
                else:
                    got = [list(zip(np.asarray(out.argvals[k]["input_dim_0"]).tolist(), np.asarray(out.values[k]).tolist())) for k in range(out.n_obs)]
                want = [[(float(hdr_i[j]), float(vals[k, j])) for j in range(c) if not mk[k, j]] for k in range(r)]
                ok_kind = isinstance(out, DenseFunctionalData) == (not with_missing)
                if not ok_kind or [[(float(a_), float(v_)) for a_, v_ in row] for row in got] != want:
                    rep.violation("read_csv with negative / signed integer column labels: the abscissae are not the integer labels (or "
                                  "dense-iff-complete fails)", {"header": hdr_i, "missing": mk.astype(int).tolist(), "values": C.hexf(vals),
                                                               "got": str(got)[:300]})
            except Exception as e:  # noqa: BLE001
                rep.violation(f"read_csv raised {type(e).__name__}: {e} on negative integer column labels"[:250], {"header": hdr_i})
    for idx, mk in enumerate(tables):
        r, c = mk.shape
        vals = fd.dyadic_matrix(rng, r, c)
        hdr_kind = idx % 3
        if hdr_kind == 0:
            hdr = [str(int(v)) for v in np.sort(rng.choice(np.arange(0, 50), size=c, replace=False))]
            hdr_model = "(Some " + C.natlist([int(h) for h in hdr]) + ")"
        elif hdr_kind == 1:
            hdr = [f"v{j}" for j in range(c)]
            hdr_model = "None"
        else:
            hdr = [f"{0.5 + j}" for j in range(c)]          # non-integer numeric labels -> positions
            hdr_model = "None"
        path = os.path.join(tmpdir, f"t{idx}.csv")
        with open(path, "w") as fh:
            fh.write(",".join(hdr) + "\n")
            for k in range(r):
                fh.write(",".join("" if mk[k, j] else repr(float(vals[k, j])) for j in range(c)) + "\n")
        opts = {"part": "read_csv", "header": ["integers", "names", "non-integer numbers"][hdr_kind], "shape": [r, c],
                "missing": mk.astype(int).tolist()}
        try:
            with warnings.catch_warnings():
                warnings.simplefilter("ignore")
                out = read_csv(path)
        except Exception as e:  # noqa: BLE001
            rep.violation(f"read_csv raised {type(e).__name__}: {e}"[:250], {**opts, "values": C.hexf(vals)})
            continue
        dense = isinstance(out, DenseFunctionalData)
        if dense:
            av = np.asarray(out.argvals["input_dim_0"])
            rows_out = [list(zip(av.tolist(), np.asarray(out.values)[k].tolist())) for k in range(out.n_obs)]
        else:
            rows_out = [list(zip(np.asarray(out.argvals[k]["input_dim_0"]).tolist(), np.asarray(out.values[k]).tolist()))
                        for k in range(out.n_obs)]
        if any(float(a_) != int(a_) or a_ < 0 for row in rows_out for a_, _ in row) or len(rows_out) != r:
            rep.violation("read_csv: abscissae are not the integer labels / column positions, or rows were lost",
                          {**opts, "values": C.hexf(vals), "got": str(rows_out)[:300]})
            continue
        rows_m = "[" + "; ".join("[" + "; ".join("None" if mk[k, j] else f"Some {C.qlit(vals[k, j])}" for j in range(c)) + "]"
                                 for k in range(r)) + "]"
        out_m = "[" + "; ".join("[" + "; ".join(f"({int(a_)}%nat, {C.qlit(v_)})" for a_, v_ in row) + "]" for row in rows_out) + "]"
        tq = runq.add(f"csv_ok {hdr_model} {c}%nat {rows_m} {C.blit(dense)} {out_m}")
        todo.append((tq, "read_csv returns the stored numbers at the right abscissae, dense iff complete, missing cells dropped",
                     ("csv", idx, vals.tobytes(), mk.tobytes()), {**opts, "values": C.hexf(vals)}))
    import shutil
    shutil.rmtree(tmpdir, ignore_errors=True)


def run(rep, props, replay=None):
    quick = C.tier() == "quick"
    rng = np.random.default_rng([C.seed(), 14])
    runq = C.CoqRun("C14", IMPORTS, shard=10)
    todo = []
    basis_part(rep, rng, runq, todo, quick)
    spline_part(rep, rng, quick)
    long_part(rep, rng, runq, todo, quick)
    csv_part(rep, rng, runq, todo, quick)
    res = runq.run()
    for t, what, key, opts in todo:
        rep.case(key, nontrivial=True, kind=opts["part"], sample={k: v for k, v in opts.items() if k != "values"})
        if not res[t]:
            rep.disagreements_checked += 1
            rep.violation(what + " — fails", {**opts, "claim": what})
