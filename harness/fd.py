"""Builders for FDApy objects from plain arrays, and grid generators (shared by all checks)."""
from __future__ import annotations

import numpy as np


def dense(t, x):
    from FDApy.representation.functional_data import DenseFunctionalData
    from FDApy.representation.argvals import DenseArgvals
    from FDApy.representation.values import DenseValues
    if isinstance(t, (list, tuple)):
        av = {f"input_dim_{i}": np.asarray(ti, dtype=float) for i, ti in enumerate(t)}
    else:
        av = {"input_dim_0": np.asarray(t, dtype=float)}
    return DenseFunctionalData(DenseArgvals(av), DenseValues(np.asarray(x, dtype=float)))


def irregular(ts, xs):
    """ts, xs: lists (one entry per curve) of 1-D arrays."""
    from FDApy.representation.functional_data import IrregularFunctionalData
    from FDApy.representation.argvals import IrregularArgvals, DenseArgvals
    from FDApy.representation.values import IrregularValues
    av = IrregularArgvals({i: DenseArgvals({"input_dim_0": np.asarray(t, dtype=float)}) for i, t in enumerate(ts)})
    va = IrregularValues({i: np.asarray(x, dtype=float) for i, x in enumerate(xs)})
    return IrregularFunctionalData(av, va)


def multivariate(parts):
    from FDApy.representation.functional_data import MultivariateFunctionalData
    return MultivariateFunctionalData(list(parts))


def grid(rng, m, kind):
    """Sorted grid with m points (dyadic so that differences are exact in doubles)."""
    if kind == "uniform":
        return np.linspace(0.0, 1.0, m)
    if kind == "uniform-dyadic":
        return np.arange(m) / 8.0
    if kind == "nonuniform":
        while True:
            t = np.unique(np.round(rng.uniform(0, 4, size=3 * m) * 64) / 64)
            if len(t) >= m:
                return np.sort(rng.choice(t, size=m, replace=False))
    if kind == "doy":
        return np.linspace(1, 365, m)
    if kind == "shifted":
        return 100.0 + np.arange(m) / 16.0
    if kind == "neg":
        return -1.0 + 2.0 * np.arange(m) / (m - 1)
    raise ValueError(kind)


GRID_KINDS = ["uniform", "uniform-dyadic", "nonuniform", "doy", "shifted", "neg"]


def smooth_curves(rng, n, t, rough=False, scale=1.0, offset=0.0):
    u = (t - t[0]) / (t[-1] - t[0]) if t[-1] > t[0] else t * 0
    k = 7 if rough else 3
    basis = np.array([np.ones_like(u)] + [np.sin((j + 1) * np.pi * u) if j % 2 == 0 else np.cos((j + 1) * np.pi * u)
                                           for j in range(k - 1)])
    sd = rng.uniform(0.3, 2.0, size=k)
    return offset + scale * ((rng.normal(size=(n, k)) * sd) @ basis)


def dyadic_matrix(rng, n, m, bits=4, lo=-4, hi=4):
    return np.round(rng.uniform(lo, hi, size=(n, m)) * 2 ** bits) / 2 ** bits


def dense_raw(t, x):
    """like dense() but keeps the dtypes of the caller's arrays (integer grids / integer-valued curves)"""
    from FDApy.representation.functional_data import DenseFunctionalData
    from FDApy.representation.argvals import DenseArgvals
    from FDApy.representation.values import DenseValues
    if isinstance(t, (list, tuple)):
        av = {f"input_dim_{i}": np.asarray(ti) for i, ti in enumerate(t)}
    else:
        av = {"input_dim_0": np.asarray(t)}
    return DenseFunctionalData(DenseArgvals(av), DenseValues(np.asarray(x)))


def dtype_monitor(rep, rng, ops, what, narrow=False):
    """Integer-valued curves and integer grids (counts, days, indices) are legitimate inputs: every operation in `ops`
    (name -> function of a dense dataset) must give, on integer-dtype arrays, what it gives on the same numbers as floats."""
    import warnings
    m, n = int(rng.integers(6, 10)), int(rng.integers(3, 6))
    x = np.arange(1, m + 1) * int(rng.integers(1, 4))
    Xi = rng.integers(-6, 7, size=(n, m))
    Xi[:, 0] += np.arange(n)                              # no constant column, no identical curves
    xf, Xf = x.astype(float), Xi.astype(float)
    ref_d = dense(xf, Xf)
    for label, build in (("integer values on an integer grid", lambda: dense_raw(x, Xi)),
                         ("integer values on a float grid", lambda: dense_raw(xf, Xi)),
                         ("float values on an integer grid", lambda: dense_raw(x, Xf)),
                         ("float values stored column-major (Fortran order)", lambda: dense_raw(xf, np.asfortranarray(Xf))),
                         ("float values given as a transposed view", lambda: dense_raw(xf, np.ascontiguousarray(Xf.T).T))):
        bad = []
        for name, fn in ops.items():
            with warnings.catch_warnings():
                warnings.simplefilter("ignore")
                want = np.asarray(fn(dense(xf, Xf)), float)
                try:
                    got = np.asarray(fn(build()), float)
                except Exception as e:  # noqa: BLE001
                    bad.append(f"{name} raised {type(e).__name__}: {str(e)[:80]}")
                    continue
            if got.shape != want.shape or not np.allclose(got, want, rtol=1e-10, equal_nan=True,
                                                          atol=1e-10 * max(1.0, float(np.nanmax(np.abs(want), initial=0)))):
                dev = float(np.max(np.abs(got - want))) if got.shape == want.shape else float("nan")
                bad.append(f"{name} differs from the result on the same numbers as floats (max {dev:.3g})")
        rep.case(("dtype", what, label, Xi.tobytes()), kind=f"dtype/{label}")
        if bad:
            rep.violation(f"{what}: {label}: " + "; ".join(bad), {"x": x.tolist(), "X": Xi.tolist(), "case": label})
    del ref_d
    if not narrow:
        return
    # narrow integer storage (8-bit pictures, 16-bit digitised signals) with values near the top of the range: sums of a few
    # of them do not fit the storage type, the statistics are those of the numbers all the same
    for dt, lo, hi in ((np.uint8, 180, 256), (np.int8, 90, 128), (np.int16, 20000, 32768)):
        Xn = rng.integers(lo, hi, size=(n + 2, m)).astype(dt)
        bad = []
        for name, fn in ops.items():
            with warnings.catch_warnings():
                warnings.simplefilter("ignore")
                want = np.asarray(fn(dense(xf, Xn.astype(float))), float)
                try:
                    got = np.asarray(fn(dense_raw(xf, Xn.copy())), float)
                except Exception as e:  # noqa: BLE001
                    bad.append(f"{name} raised {type(e).__name__}: {str(e)[:80]}")
                    continue
            if got.shape != want.shape or not np.allclose(got, want, rtol=1e-9, equal_nan=True,
                                                          atol=1e-9 * max(1.0, float(np.nanmax(np.abs(want), initial=0)))):
                dev = float(np.max(np.abs(got - want))) if got.shape == want.shape else float("nan")
                bad.append(f"{name} differs from the result on the same numbers as floats (max {dev:.3g})")
        label = f"{np.dtype(dt).name} values near the top of the range"
        rep.case(("dtype", what, label, Xn.tobytes()), kind=f"dtype/{np.dtype(dt).name}")
        if bad:
            rep.violation(f"{what}: {label}: " + "; ".join(bad), {"x": xf.tolist(), "X": Xn.tolist(), "dtype": np.dtype(dt).name})
