"""Builders for FDApy objects from plain arrays, and grid generators (shared by all checks)."""
from __future__ import annotations

import numpy as np


def dense(t, x):
    from FDApy.representation.functional_data import DenseFunctionalData
    from FDApy.representation.argvals import DenseArgvals
    from FDApy.representation.values import DenseValues
    if isinstance(t, (list, tuple)):
        av = {f"input_dim_{i}": np.asarray(ti, dtype=float) for i, ti in enumerate(t)}
    else:
        av = {"input_dim_0": np.asarray(t, dtype=float)}
    return DenseFunctionalData(DenseArgvals(av), DenseValues(np.asarray(x, dtype=float)))


def irregular(ts, xs):
    """ts, xs: lists (one entry per curve) of 1-D arrays."""
    from FDApy.representation.functional_data import IrregularFunctionalData
    from FDApy.representation.argvals import IrregularArgvals, DenseArgvals
    from FDApy.representation.values import IrregularValues
    av = IrregularArgvals({i: DenseArgvals({"input_dim_0": np.asarray(t, dtype=float)}) for i, t in enumerate(ts)})
    va = IrregularValues({i: np.asarray(x, dtype=float) for i, x in enumerate(xs)})
    return IrregularFunctionalData(av, va)


def multivariate(parts):
    from FDApy.representation.functional_data import MultivariateFunctionalData
    return MultivariateFunctionalData(list(parts))


def grid(rng, m, kind):
    """Sorted grid with m points (dyadic so that differences are exact in doubles)."""
    if kind == "uniform":
        return np.linspace(0.0, 1.0, m)
    if kind == "uniform-dyadic":
        return np.arange(m) / 8.0
    if kind == "nonuniform":
        while True:
            t = np.unique(np.round(rng.uniform(0, 4, size=3 * m) * 64) / 64)
            if len(t) >= m:
                return np.sort(rng.choice(t, size=m, replace=False))
    if kind == "doy":
        return np.linspace(1, 365, m)
    if kind == "shifted":
        return 100.0 + np.arange(m) / 16.0
    if kind == "neg":
        return -1.0 + 2.0 * np.arange(m) / (m - 1)
    raise ValueError(kind)


GRID_KINDS = ["uniform", "uniform-dyadic", "nonuniform", "doy", "shifted", "neg"]


def smooth_curves(rng, n, t, rough=False, scale=1.0, offset=0.0):
    u = (t - t[0]) / (t[-1] - t[0]) if t[-1] > t[0] else t * 0
    k = 7 if rough else 3
    basis = np.array([np.ones_like(u)] + [np.sin((j + 1) * np.pi * u) if j % 2 == 0 else np.cos((j + 1) * np.pi * u)
                                           for j in range(k - 1)])
    sd = rng.uniform(0.3, 2.0, size=k)
    return offset + scale * ((rng.normal(size=(n, k)) * sd) @ basis)


def dyadic_matrix(rng, n, m, bits=4, lo=-4, hi=4):
    return np.round(rng.uniform(lo, hi, size=(n, m)) * 2 ** bits) / 2 ** bits
