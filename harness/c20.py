"""C20 — noise and sparsification respect the source data, even on failure.

Tie (model = coq/Model/NoiseSparse.v, glue = coq/Tie/C20.v):
  * add_noise / sparsify / add_noise_and_sparsify of every simulator kind are run
    with the simulator's generator (or the numpy legacy functions) wrapped from the
    harness, so that the model is fed the SAME draws: noisy == x + s*z (s = sqrt
    oracle), sparse cells == sparsify (min_two mask fallback) x, exactly;
  * the fault space of add_noise_and_sparsify is enumerated exhaustively: every
    call event (Python function or C builtin) inside the operation is made to
    raise in turn (= every reachable callable x its k-th call), plus the natural
    failure on 2-D data and on a simulator without data; the final simulator state
    is compared with the fault machine of the model (`combined`) and with the
    defect model of the current code (`combined_nofinally`);
  * monitors on the implementation: same grid, difference == draw (exact for
    variance 0), kept cells untouched, >= 2 DISTINCT samples per curve, simulated
    data untouched (identity + deep snapshot) after every call incl. failing ones.
"""
from __future__ import annotations

import contextlib
import sys

import numpy as np

from harness import common as C

IMPORTS = "From Coq Require Import NArith Uint63.\nFrom FDAV Require Import Base.Num Base.Vec Base.Cmp Model.NoiseSparse Tie.C20."

RULE = ("simulators: KarhunenLoeve univariate 1-D (fourier/legendre/wiener/bsplines), multivariate 1-D, univariate 2-D and "
        "all-2-D multivariate (unsupported: natural failure), mixed 2-D+1-D multivariate, Brownian, Datasets, seeded and unseeded; "
        "noise variances {0, dyadic, random} ; (percentage, epsilon) in [0,1]^2 incl. (0,0), tiny percentages (min-two path), 1; "
        "draws observed by wrapping the generator, model evaluated exactly in Q on the same draws; fault enumeration: every call "
        "event inside add_noise_and_sparsify raises in turn (exhaustive), natural 2-D / no-data failures; histories of public calls. "
        "Non-trivial = dataset with >= 2 curves or >= 3 points and a non-degenerate parameter; distinct by configuration+parameters.")
ASSUME = ["exact-arithmetic model; noise compared with tolerance 1e-12*scale (exactly for variance 0)",
          "np.sqrt is an oracle: the harness checks 0 <= s and |s*s - v| <= 1e-15*v on the value it feeds to the model",
          "the generator is an oracle: the model is fed the draws observed at the generator interface",
          "fault points = call events (Python and C functions) observed by sys.setprofile inside add_noise_and_sparsify; "
          "plain attribute assignments (the restoring `self.data = tmp`) are not fault points",
          "curves have at least two sampling points"]


class Fault(Exception):
    """Injected exception (a class the implementation cannot know)."""


# ---------------------------------------------------------------------------
# simulators from JSON-able specs
# ---------------------------------------------------------------------------
def build_sim(spec, do_new=True):
    from FDApy.representation.argvals import DenseArgvals
    seed = spec.get("seed")
    kind = spec["kind"]
    lo, hi = [float(v) for v in spec.get("domain", [0.0, 1.0])]     # the simulation grid spans [lo, hi]
    if kind == "kl":
        from FDApy.simulation.karhunen import KarhunenLoeve
        comps = spec["components"]

        def av(c):
            return DenseArgvals({f"input_dim_{i}": np.linspace(lo, hi, int(d[2])) for i, d in enumerate(c)})

        def nm(c):
            return c[0][0] if len(c) == 1 else tuple(d[0] for d in c)

        def nf(c):
            return int(c[0][1]) if len(c) == 1 else tuple(int(d[1]) for d in c)
        if spec.get("multivariate"):
            sim = KarhunenLoeve(n_functions=[nf(c) for c in comps], basis_name=[nm(c) for c in comps],
                                argvals=[av(c) for c in comps], random_state=seed)
        else:
            c = comps[0]
            sim = KarhunenLoeve(n_functions=nf(c), basis_name=nm(c), argvals=av(c), random_state=seed)
        if do_new:
            kw = {}
            if spec.get("clusters_std") is not None:
                kw["clusters_std"] = spec["clusters_std"]
            sim.new(n_obs=int(spec["n_obs"]), n_clusters=int(spec.get("n_clusters", 1)), **kw)
        return sim
    if kind == "brownian":
        from FDApy.simulation.brownian import Brownian
        sim = Brownian(spec["name"], random_state=seed)
        if do_new:
            sim.new(n_obs=int(spec["n_obs"]), argvals=np.linspace(lo, hi, int(spec["n_points"])), **spec.get("kwargs", {}))
        return sim
    if kind == "datasets":
        from FDApy.simulation.datasets import Datasets
        sim = Datasets(spec.get("name", "zhang_chen"), random_state=seed)
        if do_new:
            sim.new(n_obs=int(spec["n_obs"]), argvals=np.linspace(lo, hi, int(spec["n_points"])))
        return sim
    raise ValueError(kind)


def call_new(sim, spec):
    """the `new` call build_sim makes, on an existing simulator (a second dataset from the same object)"""
    lo, hi = [float(v) for v in spec.get("domain", [0.0, 1.0])]
    if spec["kind"] == "kl":
        kw = {}
        if spec.get("clusters_std") is not None:
            kw["clusters_std"] = spec["clusters_std"]
        sim.new(n_obs=int(spec["n_obs"]), n_clusters=int(spec.get("n_clusters", 1)), **kw)
    elif spec["kind"] == "brownian":
        sim.new(n_obs=int(spec["n_obs"]), argvals=np.linspace(lo, hi, int(spec["n_points"])), **spec.get("kwargs", {}))
    else:
        sim.new(n_obs=int(spec["n_obs"]), argvals=np.linspace(lo, hi, int(spec["n_points"])))


def spec_is_2d(spec):
    """True when sparsification is unsupported (every component has dimension > 1)."""
    return spec["kind"] == "kl" and all(len(c) > 1 for c in spec["components"])


def gen_specs(rng, quick):
    specs = []
    k = 0

    def seed():
        nonlocal k
        k += 1
        return int(rng.integers(0, 2 ** 31)) if k % 5 else None     # every 5th simulator is unseeded
    for name in ["fourier", "legendre", "wiener", "bsplines"]:
        for _ in range(1 if quick else 4):
            nfun = int(rng.integers(4, 7)) if name == "bsplines" else int(rng.integers(2, 6))
            specs.append({"kind": "kl", "components": [[[name, nfun, int(rng.integers(5, 10))]]],
                          "n_obs": int(rng.integers(1, 5)), "n_clusters": int(rng.integers(1, 3)), "seed": seed()})
    # two-point and three-point grids (extremes of the min-two rule)
    specs.append({"kind": "brownian", "name": "standard", "n_points": 2, "n_obs": 3, "seed": seed()})
    specs.append({"kind": "kl", "components": [[["fourier", 2, 3]]], "n_obs": 4, "n_clusters": 1, "seed": seed()})
    for _ in range(2 if quick else 8):
        nfun = int(rng.integers(2, 5))
        specs.append({"kind": "kl", "multivariate": True,
                      "components": [[["fourier", nfun, int(rng.integers(4, 9))]], [["legendre", nfun, int(rng.integers(4, 9))]]]
                      + ([[["wiener", nfun, 5]]] if rng.integers(2) else []),
                      "n_obs": int(rng.integers(1, 5)), "n_clusters": int(rng.integers(1, 4)), "seed": seed()})
    for _ in range(1 if quick else 4):
        specs.append({"kind": "kl", "components": [[["fourier", 2, int(rng.integers(3, 5))], ["legendre", 2, int(rng.integers(3, 5))]]],
                      "n_obs": int(rng.integers(1, 4)), "n_clusters": 1, "seed": seed()})
        specs.append({"kind": "kl", "multivariate": True,
                      "components": [[["fourier", 2, 3], ["legendre", 2, 4]], [["legendre", 2, 4], ["fourier", 2, 3]]],
                      "n_obs": int(rng.integers(1, 4)), "n_clusters": 1, "seed": seed()})
        specs.append({"kind": "kl", "multivariate": True,
                      "components": [[["fourier", 2, 3], ["legendre", 2, 3]], [["legendre", 4, int(rng.integers(4, 7))]]],
                      "n_obs": int(rng.integers(1, 4)), "n_clusters": 1, "seed": seed()})
    for name in ["standard", "geometric", "fractional"][: 1 if quick else 3]:
        specs.append({"kind": "brownian", "name": name, "n_points": int(rng.integers(4, 9)), "n_obs": int(rng.integers(1, 4)),
                      "seed": seed()})
    specs.append({"kind": "datasets", "n_points": int(rng.integers(4, 8)), "n_obs": int(rng.integers(1, 4)), "seed": seed()})
    # simulation grids that do not span [0, 1]: every third simulator
    doms = [[2.0, 10.0], [-1.0, 1.0], [1.0, 365.0], [0.0, 0.5]]
    for j, sp in enumerate(specs):
        if j % 3 == 1:
            sp["domain"] = doms[(j // 3) % len(doms)]
    return specs


def gen_params(rng, quick):
    """(noise variance, percentage, epsilon) triples."""
    out = [(0.0, 0.0, 0.0), (0.25, 0.05, 0.05), (1.0, 1.0, 0.0), (2.0, 0.5, 1.0),
           (1e-9, 0.5, 0.1), (2.0 ** -40, 1.0, 0.0)]          # a small variance is a variance (curves in small units)
    if not quick:
        out.append((0.0, 0.9, 0.05))
    for _ in range(1 if quick else 6):
        out.append((float(np.round(rng.uniform(0, 3), 3)), float(np.round(rng.uniform(0, 1), 2)),
                    float(np.round(rng.uniform(0, 1), 2))))
        if not quick:
            out.append((float(rng.choice([0.0625, 0.5, 4.0])), float(rng.choice([0.0, 0.1, 0.2])), float(rng.choice([0.0, 0.1]))))
    return out


# ---------------------------------------------------------------------------
# observation of the random draws
# ---------------------------------------------------------------------------
RECORDED = ("normal", "uniform", "choice", "multivariate_normal", "standard_normal", "random", "integers", "permutation")


class GenProxy:
    """Stands in for the simulator's numpy Generator and records what it returns."""

    def __init__(self, gen, log):
        self.__dict__["_gen"] = gen
        self.__dict__["_log"] = log

    def __getattr__(self, name):
        attr = getattr(self.__dict__["_gen"], name)
        if name in RECORDED and callable(attr):
            log = self.__dict__["_log"]

            def wrapped(*a, **k):
                r = attr(*a, **k)
                log.append((name, a, k, np.array(r, copy=True)))
                return r
            return wrapped
        return attr


@contextlib.contextmanager
def observe(sim):
    """Record the draws of the simulator (private generator, or numpy's legacy functions)."""
    log = []
    if getattr(sim, "random_state", None) is not None:
        orig = sim.random_state
        sim.random_state = GenProxy(orig, log)
        try:
            yield log
        finally:
            sim.random_state = orig
    else:
        names = [n for n in RECORDED if hasattr(np.random, n)]
        saved = {n: getattr(np.random, n) for n in names}

        def mk(n, f):
            def wrapped(*a, **k):
                r = f(*a, **k)
                log.append((n, a, k, np.array(r, copy=True)))
                return r
            return wrapped
        for n in names:
            setattr(np.random, n, mk(n, saved[n]))
        try:
            yield log
        finally:
            for n in names:
                setattr(np.random, n, saved[n])


# ---------------------------------------------------------------------------
# views of functional data objects
# ---------------------------------------------------------------------------
def components(fdata):
    from FDApy.representation.functional_data import MultivariateFunctionalData
    return list(fdata.data) if isinstance(fdata, MultivariateFunctionalData) else [fdata]


def grid_of(comp):
    return [np.array(v, dtype=float, copy=True) for _, v in sorted(dict(comp.argvals).items())]


def rows_of(comp):
    v = np.asarray(comp.values, dtype=float)
    return v.reshape(v.shape[0], -1)


def sparse_rows(comp):
    vals = dict(comp.values)
    return [np.asarray(vals[i], dtype=float).reshape(-1) for i in sorted(vals)]


def snapshot(fdata):
    if fdata is None:
        return None
    return [(grid_of(c), np.array(np.asarray(c.values, dtype=float), copy=True)) for c in components(fdata)]


def same_snapshot(a, b):
    if a is None or b is None:
        return a is b
    if len(a) != len(b):
        return False
    for (ga, va), (gb, vb) in zip(a, b):
        if len(ga) != len(gb) or any(not np.array_equal(x, y) for x, y in zip(ga, gb)):
            return False
        if va.shape != vb.shape or not np.array_equal(va, vb):
            return False
    return True


def same_grids(a, b):
    return len(a) == len(b) and all(np.array_equal(x, y) for x, y in zip(a, b))


# ---------------------------------------------------------------------------
# Coq literals
# ---------------------------------------------------------------------------
def ql(x):
    """Exact literal of a double as +/- mantissa * 2^exponent with a PRIMITIVE integer mantissa (Tie `qof`):
    elaborating `Qmake <16 digits> <16 digits>` costs ~2 ms per number, this costs nothing."""
    import math
    xf = float(x)
    if xf != xf or xf in (float("inf"), float("-inf")):
        raise ValueError(f"non-finite value {x!r} cannot be given to the model")
    m, e = math.frexp(abs(xf))
    return f"(qof {'true' if xf < 0 else 'false'} {int(m * 2 ** 53)}%uint63 ({e - 53}))"


def qlist(xs):
    return "[" + "; ".join(ql(x) for x in xs) + "]"


def qmat(rows):
    return "[" + "; ".join(qlist(r) for r in rows) + "]"

def cells_lit(row):
    return "[" + "; ".join("None" if np.isnan(v) else f"Some {ql(v)}" for v in row) + "]"


def cellsm_lit(rows):
    return "[" + "; ".join(cells_lit(r) for r in rows) + "]"


def masks_lit(masks):
    return "[" + "; ".join("[" + "; ".join(C.blit(bool(b)) for b in m) + "]" for m in masks) + "]"


def pairs_lit(ps):
    return "[" + "; ".join(f"({int(i)}%nat, {int(j)}%nat)" for i, j in ps) + "]"


# ---------------------------------------------------------------------------
# parsing the observed draws
# ---------------------------------------------------------------------------
def parse_noise(log, shapes):
    """One normal draw per component -> list of (Z rows, scale) or None if the log has another form."""
    recs = [r for r in log if r[0] in ("normal", "standard_normal")]
    if len(recs) != len(shapes):
        return None
    out = []
    for (name, a, k, r), shp in zip(recs, shapes):
        if tuple(np.shape(r)) != tuple(shp):
            return None
        loc = k.get("loc", a[0] if len(a) > 0 else 0.0) if name == "normal" else 0.0
        scale = k.get("scale", a[1] if len(a) > 1 else 1.0) if name == "normal" else 1.0
        if np.ndim(loc) != 0 or np.ndim(scale) != 0 or float(loc) != 0.0:
            return None
        out.append((np.asarray(r, dtype=float).reshape(shp[0], -1), float(scale)))
    return out


def parse_sparse(log, sizes):
    """sizes: per component (n_obs, n_points).  Returns per component (masks, pairs, drawn flags) or None."""
    recs = [r for r in log if r[0] == "choice"]
    pos = 0
    out = []
    for n_obs, n_points in sizes:
        masks, pairs, drawn = [], [], []
        for _ in range(n_obs):
            if pos >= len(recs):
                return None
            name, a, k, r = recs[pos]
            pos += 1
            if "p" not in k or np.size(r) != n_points or np.asarray(r).dtype != bool:
                return None
            masks.append(np.asarray(r, dtype=bool).reshape(-1))
            if pos < len(recs) and "p" not in recs[pos][2]:
                rr = np.asarray(recs[pos][3]).reshape(-1)
                pos += 1
                if rr.size != 2:
                    return None
                pairs.append((int(rr[0]), int(rr[1])))
                drawn.append(True)
            else:
                pairs.append((0, 1))
                drawn.append(False)
        out.append((masks, pairs, drawn))
    if pos != len(recs):
        return None
    return out


# ---------------------------------------------------------------------------
# level 1: the three operations against the model
# ---------------------------------------------------------------------------
class Dedup:
    def __init__(self, rep):
        self.rep = rep
        self.seen = {}

    def violation(self, cls, what, replay):
        n = self.seen.get(cls, 0)
        self.seen[cls] = n + 1
        if n < 2:
            self.rep.violation(what, replay)

    def summary(self):
        for cls, n in self.seen.items():
            if n > 2:
                self.rep.notes.append(f"{cls}: {n} failing cases in total (first 2 reported)")


def noise_terms(run, todo, spec, params, what, src, noisy, log, s, dd):
    """Model terms + monitors for `noisy = add_noise(src)`.  Returns False if something is wrong."""
    ok = True
    v = params[0]
    cs, cn = components(src), components(noisy)
    info = {"spec": spec, "op": what, "params": list(params)}
    if len(cs) != len(cn):
        dd.violation("noise-shape", f"{what}: noisy data have {len(cn)} components, source has {len(cs)}", info)
        return False
    shapes = [tuple(np.asarray(c.values).shape) for c in cs]
    for c, n in zip(cs, cn):
        if not same_grids(grid_of(c), grid_of(n)) or np.asarray(n.values).shape != np.asarray(c.values).shape:
            dd.violation("noise-grid", f"{what}: noisy curves are not on the grid of the source", info)
            ok = False
    if not ok:
        return False
    draws = parse_noise(log, shapes)
    if draws is None and v > 0 and all(np.array_equal(rows_of(c), rows_of(n)) for c, n in zip(cs, cn)):
        dd.violation("noise-missing", f"{what}: noise variance {v!r} > 0 but the 'noisy' curves are the source curves "
                     f"(draws observed at the generator: {[r[0] for r in log]})", {**info, "X": C.hexf(rows_of(cs[0]))})
        return False
    if draws is None:
        run_note = f"{what}: draws of add_noise could not be read at the generator interface ({[r[0] for r in log]}); model not evaluated"
        dd.rep.notes.append(run_note) if run_note not in dd.rep.notes else None
        return True
    for ci, (c, n, (Z, scale)) in enumerate(zip(cs, cn, draws)):
        X, Y = rows_of(c), rows_of(n)
        if scale == 1.0:
            s_model = s
        else:       # the generator was asked for N(0, scale): the drawn noise is already scaled
            s_model = 1.0
            if abs(scale - s) > 1e-12 * max(1.0, s):
                dd.violation("noise-scale", f"{what}: noise drawn with standard deviation {scale}, expected sqrt({v}) = {s}", info)
                ok = False
        if v == 0.0:
            term = f"noise_exact {ql(s_model if scale == 1.0 else 1.0)} {qmat(Z)} {qmat(X)} {qmat(Y)}"
            exact = np.array_equal(X, Y)
            if not exact:
                dd.violation("noise-zero", f"{what}: variance 0 but the noisy curves differ from the source "
                             f"(max |diff| = {np.max(np.abs(X - Y))})", {**info, "component": ci, "X": C.hexf(X), "Y": C.hexf(Y)})
                ok = False
        else:
            tol = 1e-12 * max(1.0, float(np.max(np.abs(X))), s_model * float(np.max(np.abs(Z))))
            term = f"noise_close {ql(tol)} {ql(s_model)} {qmat(Z)} {qmat(X)} {qmat(Y)}"
            if np.max(np.abs((Y - X) - s_model * Z)) > 10 * tol:
                dd.violation("noise-diff", f"{what}: noisy - source is not sqrt(variance) * draw "
                             f"(max deviation {np.max(np.abs((Y - X) - s_model * Z)):.3g}, variance {v})",
                             {**info, "component": ci, "X": C.hexf(X), "Y": C.hexf(Y), "Z": C.hexf(Z), "s": s})
                ok = False
        t = run.add(term)
        todo.append((t, "noise-model", f"{what}: noisy data differ from the model x + s*z (component {ci}, variance {v})",
                     {**info, "component": ci, "X": C.hexf(X), "Y": C.hexf(Y), "Z": C.hexf(Z), "s": s}))
    return ok


def sparse_terms(run, todo, spec, params, what, src, sparse, log, dd):
    from FDApy.representation.functional_data import IrregularFunctionalData
    info = {"spec": spec, "op": what, "params": list(params)}
    cs, cp = components(src), components(sparse)
    if len(cs) != len(cp) or not all(isinstance(c, IrregularFunctionalData) for c in cp):
        dd.violation("sparse-shape", f"{what}: sparse data do not have one irregular component per source component", info)
        return False
    sizes = [(rows_of(c).shape[0], rows_of(c).shape[1]) for c in cs]
    parsed = parse_sparse(log, sizes)
    ok = True
    for ci, (c, p) in enumerate(zip(cs, cp)):
        X = rows_of(c)
        try:
            S = sparse_rows(p)
            grids_ok = all(same_grids(grid_of_argvals(p.argvals[i]), grid_of(c)) for i in sorted(dict(p.values)))
        except Exception as e:  # noqa: BLE001
            dd.violation("sparse-shape", f"{what}: sparse component {ci} cannot be read: {e}", info)
            return False
        if len(S) != X.shape[0] or any(len(r) != X.shape[1] for r in S) or not grids_ok:
            dd.violation("sparse-shape", f"{what}: sparse curves are not on the grid of the source (component {ci})", info)
            return False
        # monitors: kept untouched, at least two distinct samples
        for i, r in enumerate(S):
            kept = ~np.isnan(r)
            if not np.array_equal(r[kept], X[i][kept]):
                dd.violation("sparse-values", f"{what}: a retained sample does not have its source value (component {ci}, curve {i})",
                             {**info, "component": ci, "curve": i, "source": C.hexf(X[i]), "sparse": [float(x).hex() for x in r]})
                ok = False
            if int(kept.sum()) < 2:
                dd.violation("sparse-min2", f"{what}: curve {i} of component {ci} keeps {int(kept.sum())} sample(s) out of {len(r)}; "
                             f"at least two distinct samples are required (percentage={params[1]}, epsilon={params[2]})",
                             {**info, "component": ci, "curve": i, "source": C.hexf(X[i]), "sparse": [float(x).hex() for x in r],
                              "fallback_draws": [list(pp) for pp in parsed[ci][1]] if parsed else None})
                ok = False
        if parsed is None:
            note = f"{what}: draws of sparsify could not be read at the generator interface; mask taken from the output"
            if note not in dd.rep.notes:
                dd.rep.notes.append(note)
            masks = [~np.isnan(r) for r in S]
            pairs = [(0, 1)] * len(S)
            drawn = [False] * len(S)
        else:
            masks, pairs, drawn = parsed[ci]
        parts = [("sparse-model", f"{what}: sparse cells differ from the model sparsify (min_two mask fallback) x "
                  f"(component {ci}, percentage={params[1]}, epsilon={params[2]})",
                  f"sparse_eq {masks_lit(masks)} {pairs_lit(pairs)} {qmat(X)} {cellsm_lit(S)}")]
        if any(drawn):
            parts.append(("sparse-oracle", f"{what}: the min-two fallback returned positions that are not two DISTINCT indices of the curve "
                          f"(drawn with replacement — defect model any_pair, F13b): {[pp for pp, d in zip(pairs, drawn) if d]}",
                          f"pairs_distinct {qmat(X)} {pairs_lit(pairs)}"))
        parts.append(("sparse-min2-model", f"{what}: a curve keeps fewer than two samples (component {ci})",
                      f"kept_ge2 {cellsm_lit(S)}"))
        # one merged term per component; the parts are evaluated separately only when it fails
        t = run.add(" && ".join(f"({p[2]})" for p in parts))
        todo.append((t, parts, None,
                     {**info, "component": ci, "X": C.hexf(X), "masks": [m.astype(int).tolist() for m in masks],
                      "fallback": [list(pp) for pp in pairs], "fallback_drawn": drawn,
                      "sparse": [[float(x).hex() for x in r] for r in S]}))
    return ok


def grid_of_argvals(av):
    return [np.array(v, dtype=float, copy=True) for _, v in sorted(dict(av).items())]


def untouched(sim, d0, snap0):
    return sim.data is d0 and same_snapshot(snapshot(sim.data), snap0)


def operations_level(rep, rng, specs, params, quick, dd):
    run = C.CoqRun("C20", IMPORTS, shard=60)
    todo = []
    sq_seen = set()
    for spec in specs:
        sim = build_sim(spec)
        two_d = spec_is_2d(spec)
        d0, snap0 = sim.data, snapshot(sim.data)
        n_curves = rows_of(components(d0)[0]).shape[0]
        n_pts = min(rows_of(c).shape[1] for c in components(d0))
        for prm in params:
            v, pct, eps = prm
            s = float(np.sqrt(v))
            if v not in sq_seen:
                sq_seen.add(v)
                t = run.add(f"sqrt_ok {ql(1e-15)} {ql(s)} {ql(v)}")
                todo.append((t, "sqrt-oracle", f"np.sqrt({v}) = {s} is not a square root within 1e-15", {"v": v, "s": s}))
            for op in ("add_noise", "sparsify", "add_noise_and_sparsify"):
                info = {"spec": spec, "op": op, "params": list(prm)}
                err = None
                with observe(sim) as log:
                    try:
                        if op == "add_noise":
                            sim.add_noise(noise_variance=v)
                        elif op == "sparsify":
                            sim.sparsify(percentage=pct, epsilon=eps)
                        else:
                            sim.add_noise_and_sparsify(noise_variance=v, percentage=pct, epsilon=eps)
                    except Exception as e:  # noqa: BLE001
                        err = e
                log = list(log)
                rep.case(("op", repr(spec), op, prm), nontrivial=(n_curves >= 2 or n_pts >= 3),
                         kind=f"{op}/{spec['kind']}{'-mv' if spec.get('multivariate') else ''}{'-2d' if two_d else ''}"
                              f"{'' if spec.get('seed') is not None else '-unseeded'}",
                         sample={"spec": spec, "op": op, "params": list(prm), "raised": type(err).__name__ if err else None})
                # the simulated data are untouched, whatever happened
                if not untouched(sim, d0, snap0):
                    how = ("is the noisy data object (matches the defect model combined_nofinally, F13a)"
                           if sim.data is getattr(sim, "noisy_data", None) else "was replaced or modified")
                    dd.violation(f"data-{op}-{'raise' if err else 'ok'}",
                                 f"{op}({prm}) {'raised ' + type(err).__name__ if err else 'returned'} and simulator.data {how}",
                                 {**info, "raised": repr(err)})
                    sim.data = d0
                    if not same_snapshot(snapshot(d0), snap0):     # modified in place: rebuild
                        sim = build_sim(spec)
                        d0, snap0 = sim.data, snapshot(sim.data)
                        continue
                expect_raise = two_d and op != "add_noise"
                if expect_raise:
                    if not isinstance(err, ValueError):
                        dd.violation("2d-no-error", f"{op} on 2-D data: expected the natural ValueError, got {err!r}", info)
                    continue
                if err is not None:
                    dd.violation("op-raised", f"{op}({prm}) raised {type(err).__name__}: {err}", info)
                    continue
                if op == "add_noise":
                    noise_terms(run, todo, spec, prm, op, d0, sim.noisy_data, log, s, dd)
                elif op == "sparsify":
                    sparse_terms(run, todo, spec, prm, op, d0, sim.sparse_data, log, dd)
                else:
                    nlog = [r for r in log if r[0] in ("normal", "standard_normal")]
                    slog = [r for r in log if r[0] not in ("normal", "standard_normal")]
                    noise_terms(run, todo, spec, prm, op, d0, sim.noisy_data, nlog, s, dd)
                    # the combined operation sparsifies the NOISY curves
                    sparse_terms(run, todo, spec, prm, op + "[sparsify of noisy]", sim.noisy_data, sim.sparse_data, slog, dd)
    res = run.run()
    second = C.CoqRun("C20", IMPORTS, shard=30)
    stage2 = []
    for t, cls, what, info in todo:
        if res[t]:
            continue
        rep.disagreements_checked += 1
        if isinstance(cls, list):          # merged term: find out which part fails
            for pc, pw, pt in cls:
                stage2.append((second.add(pt), pc, pw, info))
        else:
            dd.violation(cls, what, info)
    if stage2:
        res2 = second.run()
        for t, cls, what, info in stage2:
            if not res2[t]:
                dd.violation(cls, what, info)


# ---------------------------------------------------------------------------
# level 2: exhaustive fault injection
# ---------------------------------------------------------------------------
def run_with_fault(sim, args, k, target=None):
    """Run add_noise_and_sparsify; the k-th call event inside it raises Fault (k=None: no fault).
    Returns dict(outcome, events, fired=info about the faulted call)."""
    cls = type(sim)
    root_code = cls.add_noise_and_sparsify.__code__
    noise_code = cls.add_noise.__code__
    sparse_code = cls.sparsify.__code__
    st = {"armed": False, "done": False, "root": None, "n": 0, "phase": [], "pn": {"noise": 0, "sparsify": 0, "outer": 0},
          "fired": None, "per": {}, "phase_frames": []}

    def prof(frame, event, arg):
        if st["done"]:
            return
        if not st["armed"]:
            if event == "call" and frame.f_code is root_code:
                st["armed"] = True
                st["root"] = frame
            return
        if event == "return":
            if frame is st["root"]:
                st["armed"] = False
                st["done"] = True
            elif st["phase_frames"] and frame is st["phase_frames"][-1]:
                st["phase_frames"].pop()
                st["phase"].pop()
            return
        if event == "call":
            code = frame.f_code
            if code is noise_code and frame.f_back is st["root"]:
                st["phase"].append("noise")
                st["phase_frames"].append(frame)
            elif code is sparse_code and frame.f_back is st["root"]:
                st["phase"].append("sparsify")
                st["phase_frames"].append(frame)
            name = code.co_qualname
        elif event == "c_call":
            name = getattr(arg, "__qualname__", None) or getattr(arg, "__name__", repr(arg))
        else:
            return
        st["n"] += 1
        ph = st["phase"][0] if st["phase"] else "outer"
        j = st["pn"][ph]
        st["pn"][ph] = j + 1
        occ = st["per"].get(name, 0) + 1
        st["per"][name] = occ
        if (k is not None and st["n"] == k) or (target is not None and (name, occ) == tuple(target)):
            st["fired"] = {"event": st["n"], "callable": name, "occurrence": occ, "phase": ph, "index_in_phase": j,
                           "before_noise": st["pn"]["noise"] == 0 and ph == "outer"}
            st["armed"] = False
            st["done"] = True
            raise Fault(f"injected at call #{occ} of {name}")

    outcome = "ok"
    old_hook = sys.unraisablehook
    swallowed = []

    def hook(u):       # an exception raised while the interpreter finalises a generator cannot propagate: it lands here
        if u.exc_type is Fault:
            swallowed.append(True)
    sys.unraisablehook = hook
    sys.setprofile(prof)
    try:
        sim.add_noise_and_sparsify(*args)
    except Fault:
        outcome = "fault"
    except Exception as e:  # noqa: BLE001
        outcome = "error:" + type(e).__name__
    finally:
        sys.setprofile(None)
        sys.unraisablehook = old_hook
    return {"outcome": outcome, "events": st["n"], "fired": st["fired"], "pn": dict(st["pn"]), "swallowed": bool(swallowed)}


def tok(x):
    return "None" if x is None else f"(Some {int(x)}%nat)"


TOK_CODE = {None: 0, 1: 1, 2: 2, 3: 3, 11: 4, 31: 5}


def state_code(td, tn, ts):
    """(data, noisy, sparse) tokens -> 3 decimal digits understood by Tie `dec_state`."""
    return 100 * TOK_CODE.get(td, 9) + 10 * TOK_CODE.get(tn, 9) + TOK_CODE.get(ts, 9)


def fault_level(rep, rng, quick, dd):
    base = [
        {"kind": "kl", "components": [[["fourier", 3, 5]]], "n_obs": 2, "n_clusters": 1, "seed": 11},
        {"kind": "kl", "multivariate": True, "components": [[["fourier", 2, 4]], [["legendre", 2, 5]]], "n_obs": 2, "n_clusters": 2,
         "seed": 12},
        {"kind": "kl", "components": [[["fourier", 2, 3], ["legendre", 2, 3]]], "n_obs": 2, "n_clusters": 1, "seed": 13},
        {"kind": "kl", "multivariate": True, "components": [[["fourier", 2, 3], ["legendre", 2, 3]], [["legendre", 2, 3], ["fourier", 2, 3]]],
         "n_obs": 2, "n_clusters": 1, "seed": 14},
        {"kind": "brownian", "name": "standard", "n_points": 4, "n_obs": 2, "seed": 15},
        {"kind": "kl", "components": [[["legendre", 2, 4]]], "n_obs": 1, "n_clusters": 1, "seed": None},
    ]
    if not quick:
        base += [
            {"kind": "kl", "multivariate": True, "components": [[["fourier", 2, 3], ["legendre", 2, 3]], [["legendre", 4, 5]]],
             "n_obs": 3, "n_clusters": 1, "seed": 16},
            {"kind": "datasets", "n_points": 5, "n_obs": 3, "seed": 17},
            {"kind": "kl", "components": [[["bsplines", 5, 8]]], "n_obs": 4, "n_clusters": 2, "seed": 18},
        ]
    run = C.CoqRun("C20", IMPORTS, shard=6)
    todo = []
    arglist = [(0.25, 0.0, 0.0), (1.0, 0.8, 0.1)] if quick else [(0.25, 0.0, 0.0), (1.0, 0.8, 0.1), (0.0, 0.5, 0.5)]
    for si, spec in enumerate(base):
        two_d = spec_is_2d(spec)
        for with_old in (True, False):
            if quick:       # quick tier: both parameter sets on the first simulator, one fresh (no previous noisy/sparse) 2-D simulator
                n_args = (2 if si == 0 else 1) if with_old else (1 if si == 2 else 0)
            else:
                n_args = len(arglist) if with_old else 1
            for args in arglist[:n_args]:
                sim = build_sim(spec)
                d0, snap0 = sim.data, snapshot(sim.data)
                old_noisy = old_sparse = None
                if with_old:
                    sim.add_noise(0.5)
                    old_noisy = sim.noisy_data
                    if not two_d:
                        sim.sparsify(0.9, 0.05)
                        old_sparse = sim.sparse_data

                def reset():
                    sim.data = d0
                    for name, val in (("noisy_data", old_noisy), ("sparse_data", old_sparse)):
                        if val is None:
                            if hasattr(sim, name):
                                delattr(sim, name)
                        else:
                            setattr(sim, name, val)

                def observed():
                    nz = getattr(sim, "noisy_data", None)
                    sp = getattr(sim, "sparse_data", None)
                    tn = None if nz is None else (2 if nz is old_noisy else 11)
                    ts = None if sp is None else (3 if sp is old_sparse else 31)
                    if sim.data is d0 and same_snapshot(snapshot(d0), snap0):
                        td = 1
                    elif sim.data is nz and nz is not None:
                        td = tn
                    else:
                        td = 999
                    return td, tn, ts
                init = state_code(1, 2 if old_noisy is not None else None, 3 if old_sparse is not None else None)
                # fault-free run first: counts the call events
                reset()
                r0 = run_with_fault(sim, args, None)
                n_events = r0["events"]
                a = b = n_events + 8
                obs_terms = []
                td, tn, ts = observed()
                nat_raised = r0["outcome"].startswith("error")
                free_obs = (nat_raised, state_code(td, tn, ts))
                rep.case(("fault-free", repr(spec), args, with_old), kind=f"fault/none{'-2d' if two_d else ''}",
                         sample={"spec": spec, "args": list(args), "events": n_events, "outcome": r0["outcome"]})
                if two_d and r0["outcome"] != "error:ValueError":
                    dd.violation("2d-no-error", f"add_noise_and_sparsify on 2-D data: expected the natural ValueError, got {r0['outcome']}",
                                 {"spec": spec, "args": list(args)})
                if not two_d and r0["outcome"] != "ok":
                    dd.violation("op-raised", f"add_noise_and_sparsify{args} failed without injected fault: {r0['outcome']}",
                                 {"spec": spec, "args": list(args)})
                if td != 1:
                    how = "the noisy data (defect model combined_nofinally, F13a)" if td == 11 else "another object / modified data"
                    dd.violation("fault-natural" if nat_raised else "fault-none",
                                 f"add_noise_and_sparsify{args} {'raised ' + r0['outcome'][6:] + ' (natural failure)' if nat_raised else 'returned'}"
                                 f" and simulator.data is afterwards {how}",
                                 {"spec": spec, "op": "add_noise_and_sparsify", "params": list(args), "fault": None, "outcome": r0["outcome"]})
                # every call event raises in turn
                k = 1
                bad = []
                n_faults = 0
                phases = {}
                callables = set()
                while k <= 20000:
                    reset()
                    r = run_with_fault(sim, args, k)
                    if r["fired"] is None:
                        break
                    f = r["fired"]
                    if r["swallowed"] and r["outcome"] != "fault":
                        # not a fault point: the event was the finalisation of a generator, where the interpreter
                        # discards exceptions (nothing can be raised to the caller from there)
                        rep.extra["events_where_exceptions_cannot_propagate"] = \
                            rep.extra.get("events_where_exceptions_cannot_propagate", 0) + 1
                        k += 1
                        continue
                    n_faults += 1
                    phases[f["phase"]] = phases.get(f["phase"], 0) + 1
                    callables.add(f["callable"])
                    td, tn, ts = observed()
                    if r["outcome"] != "fault":
                        # the injected exception was swallowed or replaced
                        bad.append((f, f"outcome {r['outcome']} instead of the injected exception", td))
                    elif td != 1:
                        bad.append((f, "simulator.data is the noisy data" if td == 11 else "simulator.data was replaced/modified", td))
                    if f["phase"] == "noise":
                        km = f["index_in_phase"]
                    elif f["phase"] == "sparsify":
                        km = a + 2 + f["index_in_phase"]
                    else:
                        km = 0 if f["before_noise"] else None
                    if km is not None and r["outcome"] == "fault":
                        obs_terms.append(f"{km * 1000 + state_code(td, tn, ts)}%uint63")
                    k += 1
                rep.case(("fault-enum", repr(spec), args, with_old), kind=f"fault/enumeration{'-2d' if two_d else ''}",
                         sample={"spec": spec, "args": list(args), "faults_injected": n_faults, "by_phase": phases,
                                 "distinct_callables": len(callables)})
                rep.evaluations += n_faults
                rep.extra["fault_points_enumerated"] = rep.extra.get("fault_points_enumerated", 0) + n_faults
                rep.extra.setdefault("fault_callables", set()).update(callables)
                obs = "[" + "; ".join(obs_terms) + "]"
                args_ = (f"{C.blit(two_d)} {a}%uint63 {b}%uint63 {init}%uint63 {C.blit(free_obs[0])} {free_obs[1]}%uint63 {obs}")
                t1 = run.add(f"tok_check_allP false {args_}")
                t2 = run.add(f"tok_check_allP true {args_}")
                todo.append((t1, t2, spec, args, with_old, bad, n_faults))
                reset()
    res = run.run()
    for t1, t2, spec, args, with_old, bad, n_faults in todo:
        info = {"spec": spec, "op": "add_noise_and_sparsify", "params": list(args), "previous_noisy_and_sparse": with_old}
        if bad:
            f, why, td = bad[0]
            by_phase = {}
            for ff, _, _ in bad:
                by_phase[ff["phase"]] = by_phase.get(ff["phase"], 0) + 1
            label = ("the implementation agrees with the defect model combined_nofinally (F13a: no try/finally)" if res[t2]
                     else "the implementation agrees with neither the model nor the defect model")
            dd.violation("fault-injected",
                         f"after an exception injected inside add_noise_and_sparsify{args} simulator.data is not restored: "
                         f"{len(bad)} of {n_faults} fault points fail (by phase {by_phase}); first: call #{f['occurrence']} of "
                         f"{f['callable']} ({f['phase']} phase) -> {why}; {label}",
                         {**info, "fault": f, "failing_fault_points": len(bad)})
        if not res[t1]:
            rep.disagreements_checked += 1
            if not bad:
                dd.violation("fault-model", f"fault enumeration of add_noise_and_sparsify{args}: final (data, noisy_data, sparse_data) "
                             f"disagree with the fault machine of the model" + (" but agree with combined_nofinally" if res[t2] else ""),
                             info)
    if isinstance(rep.extra.get("fault_callables"), set):
        rep.extra["fault_callables"] = sorted(rep.extra["fault_callables"])
    # a simulator without data: _check_data raises, nothing changes
    sim = build_sim({"kind": "kl", "components": [[["fourier", 3, 5]]], "n_obs": 2, "seed": 1}, do_new=False)
    for op in ("add_noise", "sparsify", "add_noise_and_sparsify"):
        try:
            getattr(sim, op)()
            dd.violation("nodata", f"{op} on a simulator without data did not raise", {"op": op})
        except ValueError:
            if sim.data is not None:
                dd.violation("nodata", f"{op} on a simulator without data changed simulator.data", {"op": op})
        except Exception as e:  # noqa: BLE001
            if sim.data is not None:
                dd.violation("nodata", f"{op} on a simulator without data changed simulator.data ({type(e).__name__})", {"op": op})
            sim.data = None
        rep.case(("nodata", op), nontrivial=False, kind="no-data")
    run2 = C.CoqRun("C20", IMPORTS)
    t = run2.add("tok_check false 3%nat 3%nat None (tok_state None None None) true (tok_state None None None)")
    if not run2.run()[t]:
        dd.violation("nodata-model", "model: combined on a simulator without data must raise and change nothing", {})


# ---------------------------------------------------------------------------
# level 3: histories of public calls (the simulator is reused after exceptions)
# ---------------------------------------------------------------------------
def history_level(rep, rng, specs, quick, dd):
    n_hist = 12 if quick else 120
    fixed = [[("add_noise_and_sparsify", 0.25, 0.5, 0.05), ("new", 0.0, 0.0, 0.0), ("add_noise_and_sparsify", 0.25, 0.5, 0.05),
              ("sparsify", 0.0, 0.5, 0.05)],
             [("add_noise_and_sparsify", 1.5, 1.5, 0.0), ("new", 0.0, 0.0, 0.0), ("add_noise", 0.25, 0.0, 0.0),
              ("add_noise_and_sparsify", 0.25, 1.0, 0.0)]]
    plan = [(specs[k % len(specs)], fixed[k % 2]) for k in range(min(len(specs), 8 if quick else len(specs)))]
    for h in range(len(plan) + n_hist):
        if h < len(plan):
            spec, preset = plan[h]
        else:
            spec, preset = specs[int(rng.integers(len(specs)))], None
        sim = build_sim(spec)
        d0, snap0 = sim.data, snapshot(sim.data)
        length = int(rng.integers(2, 7 if quick else 14)) if preset is None else 0
        calls = [] if preset is None else list(preset)
        for _ in range(length):
            op = ["add_noise", "sparsify", "add_noise_and_sparsify"][int(rng.integers(3))]
            v = float(rng.choice([0.0, 0.25, 1.5]))
            p = float(rng.choice([0.0, 0.05, 0.5, 1.0]))
            e = float(rng.choice([0.0, 0.05, 0.5]))
            bad_arg = bool(rng.integers(6) == 0)           # a call that fails inside numpy (negative variance is not one; p>1 is)
            calls.append((op, v, 1.5 if bad_arg else p, e))
        if preset is None and h % 2 == 1 and length >= 3:
            # the simulator is reused for a second dataset in the middle of the history: from then on `data` is the NEW dataset
            calls[length // 2] = ("new", 0.0, 0.0, 0.0)
        for i, (op, v, p, e) in enumerate(calls):
            err = None
            if op == "new":
                try:
                    call_new(sim, spec)
                    d0, snap0 = sim.data, snapshot(sim.data)
                except Exception as ex:  # noqa: BLE001
                    dd.violation("history-new", f"history step {i}: a second new() on the same simulator raised {type(ex).__name__}",
                                 {"spec": spec, "calls": [list(c) for c in calls[: i + 1]]})
                    break
                continue
            try:
                if op == "add_noise":
                    sim.add_noise(v)
                elif op == "sparsify":
                    sim.sparsify(p, e)
                else:
                    sim.add_noise_and_sparsify(v, p, e)
            except Exception as ex:  # noqa: BLE001
                err = ex
            if not untouched(sim, d0, snap0):
                how = ("is the noisy data object (defect model combined_nofinally, F13a)"
                       if sim.data is getattr(sim, "noisy_data", None) else "was replaced or modified")
                dd.violation("history", f"history step {i} {op}{(v, p, e)} {'raised ' + type(err).__name__ if err else 'returned'}: "
                             f"simulator.data {how}",
                             {"spec": spec, "calls": [list(c) for c in calls[: i + 1]], "raised": repr(err)})
                break
        rep.case(("history", repr(spec), tuple(calls)), kind="history", sample={"spec": spec, "calls": [list(c) for c in calls]})


# ---------------------------------------------------------------------------
def replay_case(rep, replay, dd):
    spec = replay.get("spec")
    if spec is None:
        print("replay: this record has no simulator spec; re-run ./check C20 (deterministic under VERIF_SEED)")
        return
    if "calls" in replay:
        sim = build_sim(spec)
        d0, snap0 = sim.data, snapshot(sim.data)
        for op, v, p, e in replay["calls"]:
            try:
                sim.add_noise(v) if op == "add_noise" else sim.sparsify(p, e) if op == "sparsify" else sim.add_noise_and_sparsify(v, p, e)
            except Exception as ex:  # noqa: BLE001
                print("replay: raised", repr(ex))
        if not untouched(sim, d0, snap0):
            dd.violation("history", "replay: simulator.data changed by the history", replay)
        return
    prm = tuple(replay.get("params", (1.0, 0.9, 0.05)))
    if replay.get("fault") is not None or replay.get("op") == "add_noise_and_sparsify" and "failing_fault_points" in replay:
        sim = build_sim(spec)
        d0, snap0 = sim.data, snapshot(sim.data)
        f = replay.get("fault") or {}
        r = run_with_fault(sim, prm, None, target=(f["callable"], f["occurrence"]) if f else None)
        print("replay:", r["outcome"], r["fired"])
        if not untouched(sim, d0, snap0):
            dd.violation("fault-injected", f"replay: simulator.data not restored after {r['outcome']} ({r['fired']})", replay)
        return
    operations_level(rep, np.random.default_rng(0), [spec], [prm], True, dd)


def run(rep, props, replay=None):
    quick = C.tier() == "quick"
    rng = np.random.default_rng([C.seed(), 20])
    dd = Dedup(rep)
    if replay is not None:
        replay_case(rep, replay, dd)
        dd.summary()
        return
    specs = gen_specs(rng, quick)
    params = gen_params(rng, quick)
    operations_level(rep, rng, specs, params, quick, dd)
    fault_level(rep, rng, quick, dd)
    history_level(rep, rng, specs, quick, dd)
    dd.summary()
