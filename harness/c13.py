"""C13 — sub-selection and concatenation are inverse; subsets are first-class datasets.

Model side (Coq, evaluated by vm_compute): Python slice / integer / index-array
semantics (`Model/PyIndex.v`), `getitem`, `iter`, `concatenate` with sequential
relabelling (`Model/Select.v`) and the F9 defect models (`getitem_keep_labels`,
`relabel_shift`, `analysis_keyerror`, `seq_iter`).  Observations are opaque to
the model: the harness identifies every curve of every result with the parent
curve it is bit-for-bit equal to (sampling points AND values) and hands the
model (label, identifier) lists.

Order of judgement for every case: compare with the CORRECT model first; a
disagreeing case is attributed to an open finding F9x only if the implementation
agrees exactly with the DEFECT model on it; anything matching neither is a
violation.
"""
from __future__ import annotations

import itertools
import warnings

import numpy as np

from harness import common as C
from harness import fd

IMPORTS = "From FDAV Require Import Model.PyIndex Model.Select Tie.C13."

FINDINGS = {
    "F9a": "IrregularFunctionalData.__getitem__ (integer / slice / index array) and its iterator keep the parent's labels "
           "instead of relabelling 0..k-1 (e.g. fdata[1:3] has labels [1,2]; to_long ids are parent labels; duplicate "
           "entries of an index array collapse)",
    "F9b": "IrregularFunctionalData methods pairing enumerate() positions with label look-ups (smooth LP/PS, center, "
           "noise_variance, covariance, inner_product, normalize, ...) raise KeyError(p) on a dataset whose labels in "
           "iteration order are not 0..k-1 (p = first deviating position), e.g. fdata[1:2].smooth() -> KeyError: 0",
    "F9c": "IrregularFunctionalData.concatenate (IrregularArgvals/IrregularValues.concatenate) relabels by `len(new) + key`: "
           "gapped labels, and an observation is LOST when a shifted label collides "
           "(concatenate(a[0], a[1], a[0]) has labels [0,2] and 2 observations)",
    "F9d": "integer indexing of IrregularFunctionalData is a label look-up: a negative or out-of-range integer raises KeyError "
           "(no wrap, no IndexError), a negative or out-of-range entry in an index array raises TypeError",
    "F9e": "MultivariateFunctionalData.normalize with an irregular component returns that component with gapped labels "
           "0,2,4,... (concatenation of the iteration items by the `len + key` rule)",
    "F9f": "iterating (or normalizing) a MultivariateFunctionalData whose FIRST component is irregular raises KeyError(n_obs) "
           "after the last observation: the sequence protocol needs IndexError, the irregular look-up raises KeyError",
}


# ---------------------------------------------------------------- Gallina literals
def z(v):
    v = int(v)
    return f"({v})" if v < 0 else str(v)


def zopt(v):
    return "None" if v is None else f"(Some {z(v)})"


def zlist(vs):
    return "[" + "; ".join(z(v) for v in vs) + "]"


def ds_lit(ds):
    return "[" + "; ".join(f"({z(l)}, {z(i)})" for l, i in ds) + "]"


def dslist_lit(dss):
    return "[" + "; ".join(ds_lit(d) for d in dss) + "]"


def ix_lit(ix):
    if isinstance(ix, slice):
        return f"(ISlice (mkslice {zopt(ix.start)} {zopt(ix.stop)} {zopt(ix.step)}))"
    if isinstance(ix, np.ndarray):
        return f"(IArr {zlist(ix.tolist())})"
    return f"(IInt {z(ix)})"


def ix_repr(ix):
    if isinstance(ix, slice):
        return f"slice({ix.start},{ix.stop},{ix.step})"
    if isinstance(ix, np.ndarray):
        return f"array({ix.tolist()})"
    return str(int(ix)) if type(ix) is int else f"{type(ix).__name__}({int(ix)})"


def err_lit(e):
    if e[0] == "KeyError":
        return f"(Err (KeyError {z(e[1])}))"
    return f"(Err {e[0]})"


def fresh_ds(n):
    return [(i, i) for i in range(n)]


# ---------------------------------------------------------------- outcomes
def outcome(f):
    """('ok', value) or ('err', (class, arg)).  Only exception classes the model knows are
    mapped; anything else is ('err', ('other:<name>', msg))."""
    try:
        with warnings.catch_warnings():
            warnings.simplefilter("ignore")
            return ("ok", f())
    except KeyError as e:
        k = e.args[0] if e.args else None
        if isinstance(k, (int, np.integer)) and not isinstance(k, bool):
            return ("err", ("KeyError", int(k)))
        return ("err", ("other:KeyError", repr(k)))
    except IndexError:
        return ("err", ("IndexError",))
    except TypeError:
        return ("err", ("TypeError",))
    except ValueError:
        return ("err", ("ValueError",))
    except Exception as e:  # noqa: BLE001
        return ("err", ("other:" + type(e).__name__, str(e)[:80]))


def modelled(e):
    return not e[0].startswith("other:")


# ---------------------------------------------------------------- dataset families
class Family:
    """A parent dataset with its raw arrays, an identifier for every curve, and a way to
    build a FRESH dataset holding a given list of curves."""
    kind = ""
    has_labels = False        # irregular data carry explicit labels
    irregular_components = ()  # for multivariate data: flags per component

    def build(self, ids):
        raise NotImplementedError

    def identify(self, obj):
        """-> ds (list of (label, id)) for univariate data, list of ds for multivariate."""
        raise NotImplementedError


def _find(rows, row):
    for j, r in enumerate(rows):
        if r.shape == row.shape and np.array_equal(r, row):
            return j
    return -1


class DenseFam(Family):
    kind = "dense"

    def __init__(self, rng, n, m=8, grid="nonuniform"):
        self.t = fd.grid(rng, m, grid)
        self.x = fd.smooth_curves(rng, n, self.t) + 0.1 * rng.normal(size=(n, m))
        self.n = n
        self.parent = self.build(range(n))

    def build(self, ids):
        ids = list(ids)
        x = self.x[ids].copy() if ids else np.zeros((0, len(self.t)))
        return fd.dense(self.t.copy(), x)

    def identify(self, obj):
        from FDApy.representation.functional_data import DenseFunctionalData
        if not isinstance(obj, DenseFunctionalData):
            return None
        v = np.asarray(obj.values)
        ok = (list(obj.argvals.keys()) == ["input_dim_0"]
              and np.array_equal(np.asarray(obj.argvals["input_dim_0"]), self.t) and v.ndim == 2)
        return [(k, _find(list(self.x), v[k]) if ok else -1) for k in range(v.shape[0])]

    def cls(self):
        from FDApy.representation.functional_data import DenseFunctionalData
        return DenseFunctionalData


class Dense2DFam(DenseFam):
    kind = "dense2d"

    def __init__(self, rng, n):
        self.t = [np.arange(4) / 4.0, np.arange(3) / 2.0]
        self.x = np.round(rng.normal(size=(n, 4, 3)) * 64) / 64
        self.n = n
        self.parent = self.build(range(n))

    def build(self, ids):
        ids = list(ids)
        x = self.x[ids].copy() if ids else np.zeros((0, 4, 3))
        return fd.dense([a.copy() for a in self.t], x)

    def identify(self, obj):
        from FDApy.representation.functional_data import DenseFunctionalData
        if not isinstance(obj, DenseFunctionalData):
            return None
        v = np.asarray(obj.values)
        ok = (list(obj.argvals.keys()) == ["input_dim_0", "input_dim_1"] and v.ndim == 3
              and all(np.array_equal(np.asarray(obj.argvals[f"input_dim_{i}"]), self.t[i]) for i in range(2)))
        return [(k, _find(list(self.x), v[k]) if ok else -1) for k in range(v.shape[0])]


class IrregFam(Family):
    kind = "irregular"
    has_labels = True

    def __init__(self, rng, n, m=9, grid="nonuniform"):
        t = fd.grid(rng, m, grid)
        self.ts, self.xs = [], []
        for i in range(n):
            k = int(rng.integers(5, m + 1))
            sel = np.sort(rng.choice(m, size=k, replace=False))
            self.ts.append(t[sel])
            self.xs.append(fd.smooth_curves(rng, 1, t)[0][sel] + 0.1 * rng.normal(size=k))
        self.n = n
        self.parent = self.build(range(n))

    def build(self, ids):
        ids = list(ids)
        return fd.irregular([self.ts[i].copy() for i in ids], [self.xs[i].copy() for i in ids])

    def identify(self, obj):
        from FDApy.representation.functional_data import IrregularFunctionalData
        if not isinstance(obj, IrregularFunctionalData):
            return None
        labels = list(obj.argvals.keys())
        if list(obj.values.keys()) != labels:
            return None
        out = []
        for lab in labels:
            av = obj.argvals[lab]
            j = -1
            if list(av.keys()) == ["input_dim_0"]:
                a = np.asarray(av["input_dim_0"])
                v = np.asarray(obj.values[lab])
                for q in range(self.n):
                    if (a.shape == self.ts[q].shape and np.array_equal(a, self.ts[q])
                            and v.shape == self.xs[q].shape and np.array_equal(v, self.xs[q])):
                        j = q
                        break
            out.append((int(lab), j))
        return out

    def cls(self):
        from FDApy.representation.functional_data import IrregularFunctionalData
        return IrregularFunctionalData


class BasisFam(Family):
    kind = "basis"

    def __init__(self, rng, n, name="fourier"):
        self.name = name
        self.nf = 3 if name == "fourier" else 5
        self.t = np.linspace(0, 1, 11)
        self.coef = np.round(rng.normal(size=(n, self.nf)) * 64) / 64
        self.n = n
        self.parent = self.build(range(n))

    def _basis(self):
        from FDApy.representation.basis import Basis
        from FDApy.representation.argvals import DenseArgvals
        return Basis(name=self.name, n_functions=self.nf, argvals=DenseArgvals({"input_dim_0": self.t.copy()}))

    def build(self, ids):
        from FDApy.representation.functional_data import BasisFunctionalData
        ids = list(ids)
        c = self.coef[ids].copy() if ids else np.zeros((0, self.nf))
        return BasisFunctionalData(basis=self._basis(), coefficients=c)

    def identify(self, obj):
        from FDApy.representation.functional_data import BasisFunctionalData
        if not isinstance(obj, BasisFunctionalData):
            return None
        ref = self._basis()
        ok = (np.array_equal(np.asarray(obj.basis.values), np.asarray(ref.values), equal_nan=True)
              and np.array_equal(np.asarray(obj.basis.argvals["input_dim_0"]), self.t))
        c = np.asarray(obj.coefficients)
        ok = ok and c.ndim == 2
        return [(k, _find(list(self.coef), c[k]) if ok else -1) for k in range(c.shape[0] if c.ndim else 0)]

    def cls(self):
        from FDApy.representation.functional_data import BasisFunctionalData
        return BasisFunctionalData


class MultiFam(Family):
    def __init__(self, rng, n, comps):
        self.comps = comps
        self.n = n
        self.kind = "multi(" + ",".join(c.kind[:3] for c in comps) + ")"
        self.irregular_components = tuple(c.has_labels for c in comps)
        self.has_labels = any(self.irregular_components)
        self.parent = self.build(range(n))

    def build(self, ids):
        ids = list(ids)
        return fd.multivariate([c.build(ids) for c in self.comps])

    def identify(self, obj):
        from FDApy.representation.functional_data import MultivariateFunctionalData
        if not isinstance(obj, MultivariateFunctionalData) or len(obj.data) != len(self.comps):
            return None
        out = [c.identify(o) for c, o in zip(self.comps, obj.data)]
        return None if any(o is None for o in out) else out

    def cls(self):
        from FDApy.representation.functional_data import MultivariateFunctionalData
        return MultivariateFunctionalData


def is_multi(fam):
    return isinstance(fam, MultiFam)


def families(n, quick):
    """Every family draws from its OWN generator (seed, 13, n_obs, family number), so that a replay can
    rebuild one family without re-running the others.  Returns [(rng, family)]."""
    makers = [lambda r: DenseFam(r, n, grid="nonuniform"),
              lambda r: IrregFam(r, n),
              lambda r: BasisFam(r, n, "fourier"),
              lambda r: MultiFam(r, n, [DenseFam(r, n, m=7, grid="uniform"), DenseFam(r, n, m=6, grid="shifted")]),
              lambda r: MultiFam(r, n, [DenseFam(r, n, m=7, grid="uniform"), IrregFam(r, n)]),
              lambda r: MultiFam(r, n, [IrregFam(r, n), DenseFam(r, n, m=7, grid="uniform")]),
              lambda r: MultiFam(r, n, [IrregFam(r, n), IrregFam(r, n, grid="uniform-dyadic")])]
    if not quick:
        makers += [lambda r: Dense2DFam(r, n), lambda r: DenseFam(r, n, grid="doy"),
                   lambda r: IrregFam(r, n, grid="neg"), lambda r: BasisFam(r, n, "bsplines")]
    out = []
    for k, mk in enumerate(makers):
        r = np.random.default_rng([C.seed(), 13, n, k])
        fam = mk(r)
        fam.number = k
        out.append((r, fam))
    return out


# ---------------------------------------------------------------- indices
def index_set(rng, n, quick):
    ints = list(range(-n - 2, n + 2))
    rngv = [None] + list(range(-n - 1, n + 2))
    steps = [None, 1, 2, -1, -2, 3, -3, 0] if not quick else [None, 1, 2, -1, -2, 0]
    slices = [slice(a, b, c) for a in rngv for b in rngv for c in steps]
    if quick and len(slices) > 260:
        keep = set(rng.choice(len(slices), size=260, replace=False).tolist())
        # always keep the plain forms
        slices = [s for i, s in enumerate(slices)
                  if i in keep or (s.step in (None, -1) and (s.start is None or s.stop is None))]
    ent = list(range(-n - 1, n + 1))
    arrs = [np.array([], dtype=int)] + [np.array([a]) for a in ent] + [np.array([a, b]) for a in ent for b in ent]
    tri = [np.array(p) for p in itertools.product(ent, repeat=3)]
    if quick:
        if len(arrs) > 70:
            idx = sorted(rng.choice(len(arrs), size=70, replace=False).tolist())
            arrs = [arrs[0]] + [arrs[i] for i in idx if i != 0]
        idx = rng.choice(len(tri), size=min(len(tri), 30), replace=False)
        tri = [tri[i] for i in sorted(idx.tolist())]
    return ints, slices, arrs + tri


def compositions(n):
    """every way of cutting 0..n into consecutive non-empty pieces, as cut lists [c1, ..., n]"""
    out = []
    for mask in range(2 ** (n - 1)):
        cuts = [i + 1 for i in range(n - 1) if mask >> i & 1] + [n]
        out.append(cuts)
    return out


# ---------------------------------------------------------------- result comparison
def _arr_close(a, b):
    a = np.asarray(a, dtype=float); b = np.asarray(b, dtype=float)
    if a.shape != b.shape:
        return False
    if a.size == 0:
        return True
    scale = max(1.0, float(np.nanmax(np.abs(b))) if np.isfinite(b).any() else 1.0)
    return bool(np.array_equal(np.isnan(a), np.isnan(b)) and
                np.allclose(a, b, rtol=0, atol=1e-9 * scale + 1e-12, equal_nan=True))


def same_result(a, b, relabel=None):
    """Structural comparison of two analysis results (value level: 1e-9 relative)."""
    import pandas as pd
    from FDApy.representation.functional_data import (DenseFunctionalData, IrregularFunctionalData,
                                                      BasisFunctionalData, MultivariateFunctionalData)
    if type(a) is not type(b):
        if isinstance(a, (int, float, np.floating, np.integer)) and isinstance(b, (int, float, np.floating, np.integer)):
            return _arr_close(a, b)
        return False
    if isinstance(a, DenseFunctionalData):
        return (list(a.argvals.keys()) == list(b.argvals.keys())
                and all(_arr_close(a.argvals[k], b.argvals[k]) for k in a.argvals)
                and _arr_close(a.values, b.values))
    if isinstance(a, IrregularFunctionalData):
        la, lb = list(a.argvals.keys()), list(b.argvals.keys())
        if la != lb or list(a.values.keys()) != la or list(b.values.keys()) != lb:
            return False
        return all(_arr_close(a.argvals[k]["input_dim_0"], b.argvals[k]["input_dim_0"])
                   and _arr_close(a.values[k], b.values[k]) for k in la)
    if isinstance(a, BasisFunctionalData):
        return _arr_close(a.coefficients, b.coefficients) and _arr_close(a.basis.values, b.basis.values)
    if isinstance(a, MultivariateFunctionalData):
        return len(a.data) == len(b.data) and all(same_result(x, y) for x, y in zip(a.data, b.data))
    if isinstance(a, pd.DataFrame):
        if list(a.columns) != list(b.columns) or a.shape != b.shape:
            return False
        bb = b
        if relabel is not None and "id" in b.columns:
            bb = b.copy()
            bb["id"] = [relabel[int(i)] for i in b["id"]]
        return all(_arr_close(a[c].to_numpy(), bb[c].to_numpy()) for c in a.columns)
    if isinstance(a, (list, tuple)):
        return len(a) == len(b) and all(same_result(x, y, relabel) for x, y in zip(a, b))
    if isinstance(a, (np.ndarray, float, int, np.floating, np.integer)):
        return _arr_close(a, b)
    return a == b


def same_outcome(oa, ob, relabel=None):
    if oa[0] != ob[0]:
        return False
    if oa[0] == "err":
        return oa[1][0] == ob[1][0]
    return same_result(oa[1], ob[1], relabel)


# ---------------------------------------------------------------- analysis operations
def operations(fam):
    """(name, callable, pairs_positions_with_labels) — `pairs` says whether the unrepaired irregular
    implementation of the method looks labels up by enumerate() position (defect model F9b)."""
    from FDApy.representation.functional_data import MultivariateFunctionalData
    kind = fam.kind
    if kind in ("dense", "dense2d"):
        ops = [("norm", lambda d: d.norm(), False),
               ("center", lambda d: d.center(), False),
               ("to_long", lambda d: d.to_long(), False),
               ("noise_variance", lambda d: d.noise_variance(order=2), False),
               ("mean", lambda d: d.mean(), False),
               ("concatenate-again", lambda d: type(d).concatenate(d, d), False)]
        if kind == "dense":
            ops += [("smooth-PS", lambda d: d.smooth(method="PS", penalty=1.0, n_segments=4, degree=2), False),
                    ("smooth-LP", lambda d: d.smooth(method="LP", bandwidth=1.5), False),
                    ("normalize", lambda d: d.normalize(), False)]
        return ops
    if kind == "irregular":
        return [("norm", lambda d: d.norm(), False),
                ("to_long", lambda d: d.to_long(), False),
                ("to_long-reindex", lambda d: d.to_long(reindex=True), False),
                ("smooth-interpolation", lambda d: d.smooth(method="interpolation"), False),
                ("mean", lambda d: d.mean(method_smoothing="LP", bandwidth=1.5), False),
                ("smooth-PS", lambda d: d.smooth(method="PS", penalty=1.0, n_segments=4, degree=2), True),
                ("smooth-LP", lambda d: d.smooth(method="LP", bandwidth=1.5), True),
                ("center", lambda d: d.center(method_smoothing="LP", bandwidth=1.5), True),
                ("noise_variance", lambda d: d.noise_variance(order=2), True),
                ("normalize", lambda d: d.normalize(), True),
                ("concatenate-again", lambda d: type(d).concatenate(d, d), False)]
    if kind == "basis":
        return [("norm", lambda d: d.norm(), False),
                ("center", lambda d: d.center(), False),
                ("mean", lambda d: d.mean(), False),
                ("to_grid", lambda d: d.to_grid(), False),
                ("smooth", lambda d: d.smooth(), False),
                ("noise_variance", lambda d: d.noise_variance(), False),
                ("to_long", lambda d: d.to_long(), False),
                ("concatenate-again", lambda d: type(d).concatenate(d, d), False)]
    irr = any(fam.irregular_components)
    ms = "LP" if irr else None
    kw = {"bandwidth": 1.5} if irr else {}
    return [("norm", lambda d: d.norm(), False),
            ("to_long", lambda d: d.to_long(), False),
            ("smooth-PS", lambda d: d.smooth(method="PS", penalty=1.0, n_segments=4, degree=2), True),
            ("center", lambda d: d.center(method_smoothing=ms, **kw), True),
            ("noise_variance", lambda d: d.noise_variance(order=2), True),
            ("concatenate-again", lambda d: MultivariateFunctionalData.concatenate(d, d), False)]


# ---------------------------------------------------------------- the check
class Ctx:
    """Collects model terms.  Individual boolean terms are deduplicated; the bulk (indexing,
    concatenation) goes into batches `head [case; case; ...]` that evaluate to an interleaved
    list [ok0; def0; ok1; def1; ...] — one parse of the parent literal per batch."""

    def __init__(self, rep):
        self.rep = rep
        self.run = C.CoqRun("C13", IMPORTS, shard=200)
        self.term_ix = {}
        self.batches = {}      # key -> {"head": str, "cases": [literal], "pos": {literal: position}}
        self.pending = []      # (kind, payload, ok_ref, def_ref, finding id)

    def term(self, t):
        t = f"({t})%Z"
        if t not in self.term_ix:
            self.term_ix[t] = self.run.add(t)
        return ("t", self.term_ix[t])

    def batch(self, key, head, lit, with_def=True):
        b = self.batches.setdefault(key, {"head": head, "cases": [], "pos": {}})
        if lit not in b["pos"]:
            b["pos"][lit] = len(b["cases"])
            b["cases"].append(lit)
        pos = b["pos"][lit]
        return ("b", key, 2 * pos), (("b", key, 2 * pos + 1) if with_def else None)

    def evaluate(self):
        res_t = self.run.run()
        raw = C.CoqRun("C13", IMPORTS, shard=6)
        keys = list(self.batches)
        for k in keys:
            b = self.batches[k]
            raw.add(f"({b['head']} [{'; '.join(b['cases'])}])%Z")
        out = raw.run(kind="raw")
        res_b = {}
        for k, r in zip(keys, out):
            vals = [w == "true" for w in __import__("re").findall(r"true|false", r)]
            if len(vals) != 2 * len(self.batches[k]["cases"]):
                raise RuntimeError(f"batch {k}: {len(vals)} results for {len(self.batches[k]['cases'])} cases")
            res_b[k] = vals

        def get(ref):
            if ref is None:
                return None
            if ref[0] == "t":
                return res_t[ref[1]]
            return res_b[ref[1]][ref[2]]
        return get


def impl_res_lit(fam, oc, ident):
    if oc[0] == "err":
        return err_lit(oc[1])
    if is_multi(fam):
        return f"(Ok {dslist_lit(ident)})"
    return f"(Ok {ds_lit(ident)})"


def getitem_terms(ctx, fam, parent_ds, ix, oc, ident):
    lit = f"({ix_lit(ix)}, {impl_res_lit(fam, oc, ident)})"
    if is_multi(fam):
        kinds = "[" + "; ".join(C.blit(k) for k in fam.irregular_components) + "]"
        return ctx.batch(("getitem", fam.kind, fam.n), f"multi_getitem_batch {kinds} {dslist_lit(parent_ds)}", lit,
                         with_def=fam.has_labels)
    return ctx.batch(("getitem", fam.kind, fam.n), f"getitem_batch {ds_lit(parent_ds)}", lit, with_def=fam.has_labels)


def concat_terms(ctx, fam, pieces, impl, flag):
    return ctx.batch(("concat", fam.kind, fam.n), "concat_batch", f"({dslist_lit(pieces)}, {ds_lit(impl)})", with_def=flag)


def labels_of(fam, ident):
    """label sequence (iteration order) of the irregular part of a dataset; None when there is none"""
    if is_multi(fam):
        for flag, d in zip(fam.irregular_components, ident):
            if flag:
                return [l for l, _ in d]
        return None
    return [l for l, _ in ident] if fam.has_labels else None


def ids_of(fam, ident):
    d = ident[0] if is_multi(fam) else ident
    return [i for _, i in d]


def consistent_multi(fam, ident):
    """all components of a multivariate result must carry the same curves"""
    if not is_multi(fam):
        return True
    first = [i for _, i in ident[0]]
    return all([i for _, i in d] == first for d in ident)


def check_family(ctx, fam, rng, quick, budget):
    rep = ctx.rep
    n = fam.n
    parent = fam.parent
    parent_ident = fam.identify(parent)
    parent_ds = parent_ident
    base = {"family": fam.kind, "n_obs": n}
    subsets = {}       # (ids, labels) -> (object, ident, how)

    def remember(obj, ident, how, prio):
        if any(i < 0 for i in ids_of(fam, ident)) or not consistent_multi(fam, ident):
            return
        key = (tuple(ids_of(fam, ident)), tuple(labels_of(fam, ident) or ()))
        if key not in subsets or prio < subsets[key][3]:
            subsets[key] = (obj, ident, how, prio)

    # ---- indexing
    ints, slices, arrs = index_set(rng, n, quick)
    # NumPy integer scalars (what `for i in np.arange(n): data[i]` passes) are integers too; irregular data reject them
    # with TypeError on the unchanged tree (observed, outside the listed index kinds: not judged), so they are used for
    # the other families only
    np_ints = [] if "irr" in fam.kind else [np.int64(k) for k in ints] + [np.int32(ints[0]), np.intp(ints[-1])]
    for ix in ints + np_ints + slices + arrs:
        oc = outcome(lambda: parent[ix])
        ident = None
        case = {**base, "op": "getitem", "index": ix_repr(ix)}
        if oc[0] == "ok":
            ident = fam.identify(oc[1])
            if ident is None:
                rep.case((fam.kind, n, ix_repr(ix)), kind=fam.kind + "/getitem")
                rep.violation(f"{fam.kind}[{ix_repr(ix)}] returned an object of the wrong type / inconsistent keys",
                              {**case, "returned": type(oc[1]).__name__})
                continue
            prio = 0 if not isinstance(ix, (slice, np.ndarray)) else (1 if isinstance(ix, slice) else 2)
            remember(oc[1], ident, ix_repr(ix), prio)
        elif not modelled(oc[1]):
            rep.case((fam.kind, n, ix_repr(ix)), kind=fam.kind + "/getitem")
            rep.violation(f"{fam.kind}[{ix_repr(ix)}] raised {oc[1][0][6:]}: {oc[1][1]}", case)
            continue
        t_ok, t_def = getitem_terms(ctx, fam, parent_ds, ix, oc, ident)
        ctx.pending.append(("getitem", {**case, "impl": (ident if oc[0] == "ok" else list(oc[1]))}, t_ok, t_def,
                            "F9a" if oc[0] == "ok" else "F9d"))

    # ---- iteration
    def do_iter():
        items = []
        for o in parent:
            items.append(o)
        return items
    oc = outcome(do_iter)
    case = {**base, "op": "iter"}
    if oc[0] == "ok":
        idents = [fam.identify(o) for o in oc[1]]
        if any(i is None for i in idents):
            rep.case((fam.kind, n, "iter"), kind=fam.kind + "/iter")
            rep.violation(f"iterating {fam.kind} data yields objects of the wrong type", case)
            idents = None
        else:
            for o, i in zip(oc[1], idents):
                remember(o, i, "iter-item", 0)
    elif not modelled(oc[1]):
        rep.case((fam.kind, n, "iter"), kind=fam.kind + "/iter")
        rep.violation(f"iterating {fam.kind} data raised {oc[1][0]}: {oc[1][1]}", case)
        idents = None
    else:
        idents = "err"
    if idents is not None:
        if is_multi(fam):
            kinds = "[" + "; ".join(C.blit(k) for k in fam.irregular_components) + "]"
            lit = err_lit(oc[1]) if idents == "err" else "(Ok [" + "; ".join(dslist_lit(i) for i in idents) + "])"
            t_ok = ctx.term(f"cmp_multi_iter false {kinds} {dslist_lit(parent_ds)} {lit}")
            t_def = ctx.term(f"cmp_multi_iter true {kinds} {dslist_lit(parent_ds)} {lit}")
            fid = "F9f" if idents == "err" else "F9a"
        else:
            if idents == "err":
                rep.case((fam.kind, n, "iter"), kind=fam.kind + "/iter")
                rep.violation(f"iterating {fam.kind} data raised {oc[1]}", case)
                t_ok = None
            else:
                t_ok = ctx.term(f"cmp_iter {ds_lit(parent_ds)} {dslist_lit(idents)}")
                t_def = ctx.term(f"cmp_iter_def {ds_lit(parent_ds)} {dslist_lit(idents)}") if fam.has_labels else None
                fid = "F9a"
        if t_ok is not None:
            ctx.pending.append(("iter", {**case, "impl": idents if idents != "err" else list(oc[1])}, t_ok, t_def, fid))

    # ---- interleaved / nested / re-entrant iteration: every iteration is independent of every other one
    reentrant_checks(rep, fam, base, parent, plain_ok=(oc[0] == "ok"))

    # ---- concatenation of the pieces of a partition, in every grouping
    cls = fam.cls()
    groupings = [("slices", cuts) for cuts in compositions(n)]
    groupings += [("int-items", None), ("iter-items", None)]
    if n >= 2:
        groupings += [("slices", [0, 1, n]), ("slices", [1, 1, n]), ("slices", [n - 1, n, n])]   # with an empty piece
    extra = []
    if n >= 2:
        extra = [("a0,a1,a0", [0, 1, 0]), ("a1,a0", [1, 0]), ("a0,a0", [0, 0])]
    for how, cuts in groupings:
        def pieces():
            if how == "slices":
                a, out = 0, []
                for b in cuts:
                    out.append(parent[a:b])
                    a = b
                return out
            if how == "int-items":
                return [parent[i] for i in range(n)]
            return [o for o in parent]
        concat_case(ctx, fam, cls, base, f"{how}:{cuts}", pieces, is_partition=True)
    for name, idxs in extra:
        concat_case(ctx, fam, cls, base, name, lambda: [parent[i] for i in idxs], is_partition=False)

    # ---- monitor: dense data cannot hold curves with their own sampling points, so concatenating pieces
    #      sampled on different grids must be refused wherever the foreign piece stands
    if fam.kind == "dense":
        foreign = fd.dense(fam.t + 0.5, fam.x[:1] + 1.0)
        arrangements = {"foreign-last": [parent[0:1], foreign], "foreign-first": [foreign, parent[0:1]],
                        "foreign-middle": [parent[0:1], foreign, parent[0:1]],
                        "foreign-last-of-3": [parent[0:1], parent[0:1], foreign]}
        for name, pcs in arrangements.items():
            oc = outcome(lambda: cls.concatenate(*pcs))
            rep.case((fam.kind, n, "foreign", name), kind=fam.kind + "/concat-foreign-grid")
            if not (oc[0] == "err" and oc[1] == ("ValueError",)):
                rep.violation(f"dense concatenate accepted a piece sampled on a different grid ({name}): the curves of that "
                              f"piece no longer have their own sampling points ({describe(oc)})",
                              {**base, "op": "concatenate-foreign-grid", "arrangement": name})

    # ---- monitor: pieces that do NOT share their sampling-points object (a freshly built dataset on an equal grid, a copy,
    #      a piece that went through an operation) concatenate exactly like the raw pieces of one parent
    if fam.kind == "dense" and n >= 2:
        import copy as _copy
        twin = fd.dense(np.array(fam.t, copy=True), np.array(fam.x, copy=True))
        separately = {"subset + freshly built dataset": lambda: [parent[0:1], twin[1:n]],
                      "two datasets built separately": lambda: [fd.dense(np.array(fam.t, copy=True), np.array(fam.x[:1], copy=True)),
                                                                fd.dense(np.array(fam.t, copy=True), np.array(fam.x[1:], copy=True))],
                      "deep copies of the pieces": lambda: [_copy.deepcopy(parent[0:1]), _copy.deepcopy(parent[1:n])],
                      "pieces after an operation": lambda: [parent[0:1] + 0.0, parent[1:n] * 1.0]}
        for name, mk in separately.items():
            oc = outcome(lambda: cls.concatenate(*mk()))
            rep.case((fam.kind, n, "separate", name), kind=fam.kind + "/concat-separately-built")
            good = oc[0] == "ok"
            if good:
                try:
                    good = (oc[1].n_obs == n and np.array_equal(np.asarray(oc[1].values, float), np.asarray(fam.x, float))
                            and np.array_equal(np.asarray(oc[1].argvals["input_dim_0"], float), np.asarray(fam.t, float)))
                except Exception:  # noqa: BLE001
                    good = False
            if not good:
                rep.violation(f"dense concatenate of pieces on EQUAL grids that are separate objects ({name}) does not give the "
                              f"parent back ({describe(oc)})", {**base, "op": "concatenate-separately-built", "arrangement": name})

    # ---- multivariate normalize (the library's own use of iterate + concatenate)
    if is_multi(fam):
        oc = outcome(lambda: parent.normalize())
        case = {**base, "op": "normalize"}
        twin_oc = None
        if oc[0] == "ok":
            labs = [[int(k) for k in c.argvals.keys()] if flag else list(range(c.n_obs))
                    for flag, c in zip(fam.irregular_components, oc[1].data)]
            # content: each curve divided by the multivariate norm; compare with the dense-side reference
            norms = parent.norm()
            ok_content = True
            for flag, comp, src in zip(fam.irregular_components, oc[1].data, fam.comps):
                if flag:
                    vals = [np.asarray(v) for v in comp.values.values()]
                    ok_content &= len(vals) == n and all(_arr_close(v, src.xs[i] / norms[i]) for i, v in enumerate(vals))
                else:
                    ok_content &= _arr_close(comp.values, src.x / norms[:, None])
            pieces_ds = [[(i, i)] for i in range(n)]
            flags_bad = []
            for flag, lab in zip(fam.irregular_components, labs):
                impl = [(l, i) for i, l in enumerate(lab)]
                t_ok, t_def = concat_terms(ctx, fam, pieces_ds, impl, flag)
                ctx.pending.append(("normalize", {**case, "labels": lab, "content_ok": bool(ok_content)}, t_ok, t_def, "F9e"))
            if not ok_content:
                rep.case((fam.kind, n, "normalize-content"), kind=fam.kind + "/normalize")
                rep.violation(f"{fam.kind}.normalize(): content is not curve / norm", case)
        elif oc[1] == ("KeyError", n) and fam.irregular_components[0]:
            # defect model: the iteration inside normalize fails exactly as plain iteration does
            kinds = "[" + "; ".join(C.blit(k) for k in fam.irregular_components) + "]"
            t_def = ctx.term(f"cmp_multi_iter true {kinds} {dslist_lit(parent_ds)} {err_lit(oc[1])}")
            t_ok = ctx.term(f"cmp_multi_iter false {kinds} {dslist_lit(parent_ds)} {err_lit(oc[1])}")
            ctx.pending.append(("normalize", {**case, "impl": list(oc[1])}, t_ok, t_def, "F9f"))
        else:
            rep.case((fam.kind, n, "normalize"), kind=fam.kind + "/normalize")
            rep.violation(f"{fam.kind}.normalize() raised {oc[1]}", case)

    # ---- analysis on subsets vs freshly built twins
    keys = sorted(subsets, key=lambda k: (subsets[k][3], len(k[0]), k))
    keys = [k for k in keys if len(k[0]) > 0]
    if len(keys) > budget:
        head = [k for k in keys if subsets[k][3] == 0]
        rest = [k for k in keys if subsets[k][3] != 0]
        pick = rng.choice(len(rest), size=max(0, budget - len(head)), replace=False) if rest else []
        keys = head + [rest[i] for i in sorted(np.asarray(pick, dtype=int).tolist())]
    ops = operations(fam)
    for key in keys:
        sub, ident, how, _ = subsets[key]
        ids = list(key[0])
        labels = labels_of(fam, ident)
        twin = fam.build(ids)
        relabel = dict(enumerate(labels)) if labels is not None else None
        for name, f, pairs in ops:
            o_sub = outcome(lambda: f(sub))
            o_twin = outcome(lambda: f(twin))
            case = {**base, "op": "analysis:" + name, "subset": how, "ids": ids, "labels": labels}
            ckey = (fam.kind, n, name, tuple(ids), tuple(labels or ()))
            sample = {**case, "twin_outcome": o_twin[0] if o_twin[0] == "ok" else list(o_twin[1])[:1]}
            if name == "concatenate-again":
                analysis_concat(ctx, fam, case, ckey, ident, o_sub, o_twin)
                continue
            if same_outcome(o_sub, o_twin):
                rep.case(ckey, nontrivial=o_twin[0] == "ok", sample=sample, kind=fam.kind + "/analysis")
                continue
            rep.disagreements_checked += 1
            if name == "to_long" and labels is not None and o_sub[0] == "ok" and o_twin[0] == "ok" \
                    and same_result(o_sub[1], o_twin[1], relabel):
                # defect model F9a: the subset carries the parent's labels and to_long reports them as ids
                rep.case(ckey, sample=sample, kind=fam.kind + "/analysis")
                rep.known_finding("F9a", FINDINGS["F9a"], case)
                continue
            if pairs and labels is not None and o_twin[0] == "ok" and o_sub[0] == "err" and o_sub[1][0] == "KeyError":
                t_def = ctx.term(f"cmp_keyerror_def {zlist(labels)} (Some {z(o_sub[1][1])})")
                ctx.pending.append(("analysis", {**case, "impl": list(o_sub[1])}, None, t_def, "F9b"))
                rep.case(ckey, sample=sample, kind=fam.kind + "/analysis")
                continue
            rep.case(ckey, sample=sample, kind=fam.kind + "/analysis")
            rep.violation(f"{fam.kind} subset {how} (ids {ids}, labels {labels}): {name} differs from the freshly built twin "
                          f"({describe(o_sub)} vs {describe(o_twin)})", case)


_STOP = object()


def reentrant_method(fam):
    """an analysis method that iterates over the dataset internally (where the class has one)"""
    k = fam.kind
    if k == "dense":
        return "smooth-PS", lambda d: d.smooth(method="PS", penalty=1.0, n_segments=4, degree=2)
    if k == "irregular":
        return "noise_variance", lambda d: d.noise_variance(order=2)
    return "norm", lambda d: d.norm()


def reentrant_checks(rep, fam, base, parent, plain_ok):
    """What a SOLO iteration yields (judged against the model above) must also be what every iteration yields
    when several run at the same time: zip(fd, fd), nested loops, itertools.product, two iterators advanced
    alternately, and an outer loop whose body calls a method that iterates over `fd` internally.
    Items are pulled with explicit next() at most n times, so that datasets whose iteration cannot terminate
    properly (open finding F9f) are still checked; `for` syntax is used in addition when a solo iteration works."""
    n = fam.n

    def ident_seq(items):
        out = []
        for o in items:
            i = fam.identify(o)
            out.append(None if i is None else (tuple(map(tuple, i)) if not is_multi(fam) else tuple(tuple(map(tuple, c)) for c in i)))
        return out

    def pulls(it, k):
        out = []
        for _ in range(k):
            o = next(it, _STOP)
            if o is _STOP:
                break
            out.append(o)
        return out

    solo = outcome(lambda: ident_seq(pulls(iter(parent), n)))
    if solo[0] != "ok":
        return          # a solo iteration cannot even deliver n items: judged under iteration
    ref = solo[1]
    name_m, method = reentrant_method(fam)
    ref_result = outcome(lambda: method(parent))

    def scenarios():
        sc = {}
        a, b = iter(parent), iter(parent)
        xa, xb = [], []
        for _ in range(n):
            xa += pulls(a, 1)
            xb += pulls(b, 1)
        sc["two iterators advanced alternately / first"] = ident_seq(xa)
        sc["two iterators advanced alternately / second"] = ident_seq(xb)
        outer = iter(parent)
        visited = []
        for k in range(n):
            o = pulls(outer, 1)
            if not o:
                break
            visited += o
            sc[f"nested iteration / inner pass {k}"] = ident_seq(pulls(iter(parent), n))
        sc["nested iteration / outer"] = ident_seq(visited)
        outer = iter(parent)
        visited, results = [], []
        for k in range(n):
            o = pulls(outer, 1)
            if not o:
                break
            results.append(outcome(lambda: method(parent)))
            visited += o
        sc[f"outer loop calling {name_m}() in its body"] = ident_seq(visited)
        sc["_results"] = results
        if plain_ok:
            pairs = list(itertools.islice(zip(parent, parent), n + 2))
            sc["zip(fd, fd) / first"] = ident_seq([p[0] for p in pairs])
            sc["zip(fd, fd) / second"] = ident_seq([p[1] for p in pairs])
            visited = []
            count = 0
            for x_ in parent:
                visited.append(x_)
                inner = []
                for y_ in parent:
                    inner.append(y_)
                    count += 1
                    if count > (n + 1) * (n + 1):
                        break
                sc[f"for a in fd: for b in fd / inner pass {len(visited) - 1}"] = ident_seq(inner)
                if len(visited) > n + 1:
                    break
            sc["for a in fd: for b in fd / outer"] = ident_seq(visited)
            prod = list(itertools.islice(itertools.product(parent, parent), n * n + 2))
            sc["itertools.product(fd, fd) / first"] = ident_seq([p[0] for p in prod[::max(n, 1)]]) if len(prod) == n * n else ["wrong length"]
            sc["itertools.product(fd, fd) / second"] = ident_seq([p[1] for p in prod[:n]])
            visited = []
            for x_ in parent:
                outcome(lambda: method(parent))
                visited.append(x_)
                if len(visited) > n + 1:
                    break
            sc[f"for obs in fd: fd.{name_m}()"] = ident_seq(visited)
        return sc

    oc = outcome(scenarios)
    if oc[0] != "ok":
        rep.case((fam.kind, n, "reentrant"), kind=fam.kind + "/reentrant-iteration")
        rep.violation(f"{fam.kind} n_obs={n}: interleaved / nested iteration raised {oc[1]} although a solo iteration delivers "
                      f"its {n} items", {**base, "op": "reentrant-iteration"})
        return
    sc = oc[1]
    results = sc.pop("_results")
    reported = 0
    for what, seq in sc.items():
        rep.case((fam.kind, n, "reentrant", what), nontrivial=n >= 2, kind=fam.kind + "/reentrant-iteration",
                 sample={**base, "op": "reentrant-iteration", "scenario": what})
        if seq != ref:
            rep.disagreements_checked += 1
            reported += 1
            if reported > 3:        # at most three replay files per dataset
                continue
            rep.violation(f"{fam.kind} n_obs={n}: {what}: yields {len(seq)} item(s) {[ids_of_ident(fam, i) for i in seq]} where a solo "
                          f"iteration yields the {n} observations {[ids_of_ident(fam, i) for i in ref]} (iterations are not "
                          f"independent of each other)", {**base, "op": "reentrant-iteration", "scenario": what})
    for k, r in enumerate(results):
        if not same_outcome(r, ref_result):
            rep.disagreements_checked += 1
            rep.violation(f"{fam.kind} n_obs={n}: {name_m}() called inside `for obs in fd` (pass {k}) differs from the same call "
                          f"outside the loop ({describe(r)} vs {describe(ref_result)})",
                          {**base, "op": "reentrant-iteration", "scenario": f"{name_m} inside loop"})
            break


def ids_of_ident(fam, ident):
    if ident is None or isinstance(ident, str):
        return ident
    d = ident[0] if is_multi(fam) else ident
    return [i for _, i in d]


def describe(oc):
    if oc[0] == "err":
        return f"raises {oc[1][0].replace('other:', '')}{oc[1][1:] if len(oc[1]) > 1 else ''}"
    v = oc[1]
    if isinstance(v, (float, int, np.floating)):
        return f"value {float(v)!r}"
    if isinstance(v, np.ndarray) and v.size <= 6:
        return f"value {v.tolist()}"
    return f"a {type(v).__name__}"


def concat_case(ctx, fam, cls, base, name, pieces_fn, is_partition):
    rep = ctx.rep
    case = {**base, "op": "concatenate", "pieces": name}
    ckey = (fam.kind, fam.n, "concat", name)
    op = outcome(pieces_fn)
    if op[0] != "ok":
        # the pieces could not be produced (e.g. multivariate iteration fails: already judged under iteration)
        rep.dist["concat-skipped-pieces-unavailable"] = rep.dist.get("concat-skipped-pieces-unavailable", 0) + 1
        return
    pieces = op[1]
    pid = [fam.identify(p) for p in pieces]
    if any(p is None for p in pid):
        return
    oc = outcome(lambda: cls.concatenate(*pieces))
    judge_concat(ctx, fam, {**case, "partition": is_partition}, ckey, pid, oc, "concat")


def multi_concat_terms(ctx, fam, pid, lit):
    kinds = "[" + "; ".join(C.blit(k) for k in fam.irregular_components) + "]"
    per_comp = "[" + "; ".join(dslist_lit([p[ci] for p in pid]) for ci in range(len(fam.comps))) + "]"
    return ctx.batch(("mconcat", fam.kind, fam.n), f"multi_concat_batch {kinds}", f"({per_comp}, {lit})",
                     with_def=fam.has_labels)


def judge_concat(ctx, fam, case, ckey, pid, oc, kind):
    """pid: identification of the pieces; oc: outcome of concatenate(*pieces)"""
    rep = ctx.rep
    name = case.get("pieces", case.get("subset"))
    if oc[0] == "err" and oc[1][0] == "other:NotImplementedError" and fam.kind == "basis":
        rep.dist["basis-concatenate-NotImplementedError"] = rep.dist.get("basis-concatenate-NotImplementedError", 0) + 1
        return
    empty_piece = any(len(ids_of(fam, p)) == 0 for p in pid)
    if oc[0] == "err" and empty_piece and fam.has_labels and oc[1][0] == "other:RuntimeError":
        # An EMPTY irregular subset (fdata[0:0]) is a degenerate object (its n_dimension raises StopIteration);
        # partitions into non-empty pieces are what the property quantifies over.  Counted and documented
        # (tools/design_notes/C13.md), not judged.  Dense data are checked with empty pieces at full strength.
        rep.dist["irregular-empty-piece-refused"] = rep.dist.get("irregular-empty-piece-refused", 0) + 1
        return
    if oc[0] == "err" and not (is_multi(fam) and oc[1] == ("ValueError",)):
        rep.case(ckey, kind=fam.kind + "/" + kind)
        rep.violation(f"{fam.kind}.concatenate of pieces {name} raised {oc[1]}", case)
        return
    ident = None
    if oc[0] == "ok":
        ident = fam.identify(oc[1])
        if ident is None:
            rep.case(ckey, kind=fam.kind + "/" + kind)
            rep.violation(f"{fam.kind}.concatenate of pieces {name} returned a malformed object", case)
            return
    if is_multi(fam):
        lit = err_lit(oc[1]) if oc[0] == "err" else f"(Ok {dslist_lit(ident)})"
        t_ok, t_def = multi_concat_terms(ctx, fam, pid, lit)
    else:
        t_ok, t_def = concat_terms(ctx, fam, pid, ident, fam.has_labels)
    ctx.pending.append((kind, {**case, "impl": ident if ident is not None else list(oc[1]), "piece_labels": pid},
                        t_ok, t_def, "F9c"))


def analysis_concat(ctx, fam, case, ckey, ident, o_sub, o_twin):
    """concatenate(sub, sub) vs concatenate(twin, twin): model = concatenate / relabel_shift on [sub; sub]"""
    rep = ctx.rep
    if o_sub[0] == "err" and o_twin[0] == "err" and o_sub[1][0] == o_twin[1][0]:
        if o_sub[1][0] == "other:NotImplementedError" and fam.kind == "basis":
            rep.dist["basis-concatenate-NotImplementedError"] = rep.dist.get("basis-concatenate-NotImplementedError", 0) + 1
        rep.case(ckey, nontrivial=False, kind=fam.kind + "/analysis")
        return
    judge_concat(ctx, fam, case, ckey, [ident, ident], o_sub, "concat-again")


# ---------------------------------------------------------------- PyIndex validation against CPython
def pyindex_validation_start():
    """Build the exhaustive CPython table and start evaluating the model on it (background thread)."""
    import threading
    lo, hi, slo, shi = -8, 8, -3, 3
    rngv = [None] + list(range(lo, hi + 1))
    steps = [None] + list(range(slo, shi + 1))
    run = C.CoqRun("C13", IMPORTS, shard=2)
    total = 0
    for n in range(0, 7):
        exp = []
        for a in rngv:
            for b in rngv:
                for c in steps:
                    try:
                        t = slice(a, b, c).indices(n)
                        ps = list(range(n))[a:b:c]
                        assert ps == list(range(*t))
                        exp.append(f"Some ({z(t[0])}, {z(t[1])}, {z(t[2])}, {zlist(ps)})")
                    except ValueError:
                        exp.append("None")
                    total += 1
        run.add(f"(pyindex_mismatches {n} {z(lo)} {hi} {z(slo)} {shi} [{'; '.join(exp)}])%Z")
        iexp = []
        for i in range(-9, 10):
            try:
                iexp.append(f"Some {list(range(n))[i]}")
            except IndexError:
                iexp.append("None")
        run.add(f"(intindex_mismatches {n} (-9) 9 [{'; '.join(iexp)}])%Z")
        total += 19
    box = {"total": total}

    def work():
        try:
            box["res"] = run.run(kind="raw")
        except Exception as e:  # noqa: BLE001
            box["exc"] = e
    th = threading.Thread(target=work, daemon=True)
    th.start()
    box["thread"] = th
    return box


def pyindex_validation_finish(rep, box):
    import re
    box["thread"].join()
    if "exc" in box:
        raise box["exc"]
    res = box["res"]
    rep.extra["pyindex_validation"] = {"cases": box["total"],
                                       "range": "n<=6, start/stop in -8..8 U {None}, step in -3..3 U {None} "
                                                "(0 = ValueError), integer indices -9..9", "mismatches": 0}
    bad = 0
    for k, r in enumerate(res):
        nums = [int(x) for x in re.findall(r"-?\d+", r.replace("%Z", ""))]
        rep.case(("pyindex", k), kind="pyindex-validation")
        if nums:
            bad += len(nums)
            rep.violation(f"MODEL VALIDATION: PyIndex model differs from CPython for n={k // 2} "
                          f"({'slices' if k % 2 == 0 else 'integer indices'}), case numbers {nums[:10]}",
                          {"n": k // 2, "which": "slice" if k % 2 == 0 else "int", "case_numbers": nums[:50]}, no_input=True)
    rep.extra["pyindex_validation"]["mismatches"] = bad


# ---------------------------------------------------------------- entry
def used_parent_monitor(rep):
    """A selection holds exactly the selected observations even when the parent has been ANALYSED before (mean, center,
    covariance, Gram matrix, norm, noise variance ...): every statistic of the selection equals that of a dataset built
    afresh from the same rows."""
    import warnings
    from harness import fd
    rng = np.random.default_rng([C.seed(), 13, 7])
    x = np.linspace(0, 1, 9)
    x2 = np.array([0.0, 0.5, 2.0])
    X1 = np.round(rng.normal(size=(6, 9)) * 16) / 16 + np.arange(6)[:, None]
    X2 = np.round(rng.normal(size=(6, 9, 3)) * 16) / 16 + np.arange(6)[:, None, None]
    stats = [("mean", lambda d: d.mean().values), ("center", lambda d: d.center().values), ("norm", lambda d: d.norm()),
             ("noise_variance", lambda d: d.noise_variance(order=2)), ("inner_product", lambda d: d.inner_product(noise_variance=0)),
             ("covariance", lambda d: d.covariance().values)]
    sels = [("int", 2), ("negative int", -1), ("slice", slice(1, 4)), ("stepped slice", slice(0, 6, 2)),
            ("index array", np.array([4, 0, 3])), ("one-element array", np.array([5]))]
    for dim, grids, X in ((1, x, X1), (2, [x, x2], X2)):
        parent = fd.dense(grids, X.copy())
        with warnings.catch_warnings():
            warnings.simplefilter("ignore")
            for name, f in stats:                  # use the parent first
                if dim == 2 and name == "covariance":
                    continue
                try:
                    f(parent)
                except Exception:  # noqa: BLE001
                    pass
            subsets = [(nm, parent[ix], np.atleast_1d(np.arange(6)[ix])) for nm, ix in sels]
            subsets += [(f"iteration #{k}", obs, np.array([k])) for k, obs in enumerate(parent) if k in (0, 3)]
            for nm, sub, rows in subsets:
                twin = fd.dense(grids, X[rows].copy())
                for name, f in stats:
                    if dim == 2 and name == "covariance":
                        continue
                    try:
                        a_, b_ = np.asarray(f(sub), float), np.asarray(f(twin), float)
                    except Exception:  # noqa: BLE001
                        continue
                    rep.case(("used-parent", dim, nm, name), kind="history/analysed-parent")
                    if a_.shape != b_.shape or not np.allclose(a_, b_, rtol=1e-10, atol=1e-12, equal_nan=True):
                        rep.violation(f"dense {dim}-D: after the parent dataset has been analysed, {name}() of the selection [{nm}] differs "
                                      f"from {name}() of a dataset built from the same rows — the selection does not hold exactly the "
                                      f"selected observations (state inherited from the parent)",
                                      {"dim": dim, "selection": nm, "rows": rows.tolist(), "statistic": name, "X": C.hexf(X)})
                        break


def used_parent_basis_monitor(rep):
    """Basis-expansion data: a selection of an already analysed parent gives, for every operation and option (here the integration
    rule of the norm), what a dataset built afresh from the same coefficients gives."""
    import warnings
    from FDApy.representation.basis import Basis
    from FDApy.representation.functional_data import BasisFunctionalData
    from FDApy.representation.argvals import DenseArgvals
    rng = np.random.default_rng([C.seed(), 13, 8])
    t = np.linspace(0, 1, 21)
    coef = np.round(rng.normal(size=(5, 4)) * 16) / 16 + 1.0

    def fresh(rows):
        return BasisFunctionalData(basis=Basis(name="bsplines", n_functions=4, argvals=DenseArgvals({"input_dim_0": t})),
                                   coefficients=coef[rows].copy())
    stats = [("norm(simpson)", lambda d: d.norm(method_integration="simpson")), ("norm()", lambda d: d.norm()),
             ("norm(squared, simpson)", lambda d: d.norm(squared=True, method_integration="simpson")),
             ("mean", lambda d: d.mean().to_grid().values), ("center", lambda d: d.center().to_grid().values),
             ("inner_product(simpson)", lambda d: d.inner_product(method_integration="simpson"))]
    try:
        with warnings.catch_warnings():
            warnings.simplefilter("ignore")
            parent = fresh(np.arange(5))
            parent.norm(); parent.mean(); parent.center(); parent.inner_product()          # the parent is analysed first (default options)
            subsets = [("int", parent[2], np.array([2])), ("slice", parent[1:4], np.arange(1, 4)),
                       ("index array", parent[np.array([4, 0, 3])], np.array([4, 0, 3]))]
            subsets += [(f"iteration #{k}", obs, np.array([k])) for k, obs in enumerate(parent) if k == 3]
            for nm, sub, rows in subsets:
                twin = fresh(rows)
                for name, f in stats:
                    a_, b_ = np.asarray(f(sub), float), np.asarray(f(twin), float)
                    rep.case(("used-parent-basis", nm, name), kind="history/analysed-parent-basis")
                    if a_.shape != b_.shape or not np.allclose(a_, b_, rtol=1e-10, atol=1e-12):
                        rep.violation(f"basis-expansion data: after the parent has been analysed, {name} of the selection [{nm}] differs from "
                                      f"{name} of a dataset built from the same coefficients (max {np.max(np.abs(a_ - b_)) if a_.shape == b_.shape else 'shape'}) "
                                      f"— state inherited from the parent", {"selection": nm, "rows": rows.tolist(), "statistic": name,
                                                                            "coefficients": C.hexf(coef)})
                        break
    except ModuleNotFoundError:
        return
    except Exception as e:  # noqa: BLE001
        rep.notes.append(f"analysed-parent monitor for basis data raised {type(e).__name__}: {e}"[:160])


def run(rep, props, replay=None):
    quick = C.tier() == "quick"
    if replay is not None:
        return replay_case(rep, replay, quick)
    used_parent_monitor(rep)
    used_parent_basis_monitor(rep)
    import time
    t0 = time.time()
    box = pyindex_validation_start()
    ctx = Ctx(rep)
    for n in range(1, 7):
        for rng, fam in families(n, quick):
            check_family(ctx, fam, rng, quick, budget=(10 if quick else 10 ** 6))
    t1 = time.time()
    pyindex_validation_finish(rep, box)
    t2 = time.time()
    judge(ctx)
    rep.extra["timing_s"] = {"implementation_runs": round(t1 - t0, 1),
                             "pyindex_validation_wait (runs in the background)": round(t2 - t1, 1),
                             "model_evaluation_and_judgement": round(time.time() - t2, 1)}


def judge(ctx):
    rep = ctx.rep
    get = ctx.evaluate()
    for kind, case, t_ok, t_def, fid in ctx.pending:
        key = (kind, repr(sorted(case.items(), key=lambda kv: kv[0])))
        ok = bool(get(t_ok)) if t_ok is not None else False
        agrees_def = bool(get(t_def)) if t_def is not None else False
        if kind != "analysis":
            rep.case(key, sample=case, kind=case["family"] + "/" + kind)
        if ok:
            continue
        if kind != "analysis":
            rep.disagreements_checked += 1
        if agrees_def:
            rep.known_finding(fid, FINDINGS[fid], case)
            continue
        which = ("agrees with neither the correct model nor the F9 defect model" if t_def is not None
                 else "disagrees with the model")
        rep.violation(f"{case['family']} n_obs={case['n_obs']} {case['op']} "
                      f"{case.get('index', case.get('pieces', case.get('subset', '')))}: implementation {which} "
                      f"(impl: {case.get('impl', case.get('labels'))})",
                      {**case, "agrees_correct_model": ok, "agrees_defect_model": agrees_def})


def replay_case(rep, rp, quick):
    """Re-run the family (dataset kind, n_obs) the stored case belongs to — same tier and seed regenerate the same
    dataset and the same indices — and report what is found there; the stored case is among them."""
    if rp.get("which") in ("slice", "int"):
        box = pyindex_validation_start()
        pyindex_validation_finish(rep, box)
        return
    if "family" not in rp or "n_obs" not in rp:
        print("replay: this file does not describe a dataset case; re-run ./check C13")
        rep.case(("replay",), sample={"replay": rp.get("what")})
        return
    ctx = Ctx(rep)
    found = False
    for tier_quick in ([quick] if quick else [False, True]):
        for rng, fam in families(int(rp["n_obs"]), tier_quick):
            if fam.kind == rp["family"]:
                check_family(ctx, fam, rng, tier_quick, budget=(10 if tier_quick else 10 ** 6))
                found = True
                break
        if found:
            break
    judge(ctx)
    print(f"replay: re-ran every case of family {rp['family']} with n_obs={rp['n_obs']} "
          f"(stored case: {rp.get('op')} {rp.get('index', rp.get('pieces', rp.get('subset', '')))})")


RULE = ("dense / irregular / basis / multivariate (dense+dense, dense+irregular, irregular+dense, irregular+irregular) datasets with "
        "n_obs 1..6 and pairwise distinct curves; every integer index in -n-2..n+1, slices with start/stop in {None} U -n-1..n+1 and "
        "step in {None,1,2,-1,-2,0(,3,-3)}, index arrays of length 0..3 with entries in -n-1..n (sampled in the quick tier), iteration; "
        "every grouping of 0..n into consecutive slices (+ groupings with an empty piece, integer items, iteration items, and the "
        "non-partitions a0,a1,a0 / a1,a0 / a0,a0); interleaved / nested / re-entrant iteration (zip, nested loops, product, two iterators "
        "advanced alternately, a method that iterates internally called inside a loop) vs a solo iteration; analysis operations on the "
        "distinct subsets vs a freshly built twin. A case is one "
        "(dataset, index | grouping | subset x operation); non-trivial unless both sides refuse with the same exception.")
ASSUME = ["curves are identified by bit-for-bit equality of sampling points and values with a parent curve (parents have pairwise distinct curves)",
          "analysis results on a subset and on its freshly built twin are compared with tolerance 1e-9*scale + 1e-12 (same arithmetic on the "
          "same numbers; the tolerance only absorbs memory-layout dependent summation order)",
          "BasisFunctionalData.concatenate raises NotImplementedError by design (documented); this explicit refusal is counted, not judged; "
          "smooth / noise_variance / to_long of basis data likewise refuse on subset and twin alike",
          "the PyIndex model is validated exhaustively against CPython in every run (model validation, not a theorem)"]
