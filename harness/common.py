"""Shared machinery of the FDApy proof/correspondence checks.

Everything a check needs: building the Coq development, re-checking a
property file and harvesting its `Print Assumptions` output, evaluating model
terms with `vm_compute` in sharded `cases_*.v` files, exact float->Q
serialisation, evidence/replay writers, known-findings lookup.
"""
from __future__ import annotations

import fcntl
import hashlib
import json
import os
import re
import shutil
import subprocess
import sys
import tempfile
import time
from fractions import Fraction
from pathlib import Path

VERIF = Path(__file__).resolve().parent.parent
REPO = Path(os.environ.get("FDAPY_REPO", "/repo"))
COQ_SRC = VERIF / "coq"
# The development is built in place for /repo.  A run against another tree (FDAPY_REPO: seeded-change tests in scratch
# worktrees) builds a private copy under build/, so that the files generated from THAT tree's source (coq/Gen) never mix
# with the ones generated from /repo while other checks run.
COQ = COQ_SRC if str(REPO) == "/repo" else VERIF / "build" / ("coq_" + hashlib.sha1(str(REPO).encode()).hexdigest()[:10])
# evidence describes runs against /repo's working tree only: a run against another tree (FDAPY_REPO, used by
# tools/try_seed_wt.sh to test seeded changes in a scratch worktree) writes its record under build/ instead
EVID = (VERIF / "evidence") if str(REPO) == "/repo" else (VERIF / "build" / "evidence_other_tree")
REPLAYS = VERIF / "replays"
SCRATCH = VERIF / "build" / "scratch"
NPROC = min(16, os.cpu_count() or 4)

STD_AXIOMS = {
    "ClassicalDedekindReals.sig_forall_dec",
    "ClassicalDedekindReals.sig_not_dec",
    "FunctionalExtensionality.functional_extensionality_dep",
    "Classical_Prop.classic",
    "ProofIrrelevance.proof_irrelevance",
    "Eqdep.Eq_rect_eq.eq_rect_eq",
    "JMeq.JMeq_eq",
}

NUMERIC = {"C01", "C02", "C03", "C04", "C05", "C06", "C08", "C09", "C10", "C14", "C18"}

FORBIDDEN = re.compile(
    r"\b(Admitted|admit|Axiom|Axioms|Parameter|Parameters|Conjecture|Admit Obligations|"
    r"bypass_check|Unset Guard Checking|Unset Positivity Checking|Unset Universe Checking|type-in-type)\b"
)


def tier() -> str:
    return os.environ.get("VERIF_TIER", "quick")


def seed() -> int:
    try:
        return int(os.environ.get("VERIF_SEED", "20260930"))
    except ValueError:
        return 20260930


# --------------------------------------------------------------------------
# Coq build
# --------------------------------------------------------------------------
def _run(cmd, cwd=None, timeout=1800, env=None):
    p = subprocess.run(cmd, cwd=cwd, stdout=subprocess.PIPE, stderr=subprocess.STDOUT,
                       text=True, timeout=timeout, env=env)
    return p.returncode, p.stdout


def scan_forbidden() -> list[str]:
    """Fail closed on any escape hatch in the development (comments stripped)."""
    bad = []
    for f in sorted(COQ.rglob("*.v")):
        if "scratch" in f.parts:
            continue
        txt = f.read_text()
        txt = re.sub(r"\(\*.*?\*\)", "", txt, flags=re.S)
        for m in FORBIDDEN.finditer(txt):
            bad.append(f"{f.relative_to(VERIF)}: {m.group(0)}")
    return bad


def coq_files() -> list[str]:
    out = []
    for sub in ("Base", "Gen", "Model", "Lemmas", "Tie", "Props"):
        d = COQ / sub
        if d.is_dir():
            out += sorted(str(p.relative_to(COQ)) for p in d.glob("*.v"))
    return out


def build(verbose=False) -> tuple[bool, str]:
    """(Re)build the whole Coq development under a lock.  No-op when up to date."""
    (VERIF / "build").mkdir(exist_ok=True)
    lock = open(VERIF / "build" / (".lock" if COQ == COQ_SRC else f".lock_{COQ.name}"), "w")
    fcntl.flock(lock, fcntl.LOCK_EX)
    try:
        if COQ != COQ_SRC:
            # sources (not the generated ones) from the development; compiled files of earlier runs are kept
            COQ.mkdir(parents=True, exist_ok=True)
            src_lock = open(VERIF / "build" / ".lock", "w")
            fcntl.flock(src_lock, fcntl.LOCK_SH)
            try:
                _run(["rsync", "-a", "--delete", "--exclude", "Gen/", "--include", "*/", "--include", "*.v", "--exclude", "*",
                      str(COQ_SRC) + "/", str(COQ) + "/"], cwd=VERIF)
            finally:
                fcntl.flock(src_lock, fcntl.LOCK_UN)
                src_lock.close()
        from harness import reflect
        reflect.write_consts()
        reflect.write_kernels()
        reflect.write_basisforms()
        reflect.write_eigenvalues()
        reflect.write_helpers()
        reflect.write_select()
        reflect.write_normalize()
        bad = scan_forbidden()
        if bad:
            return False, "forbidden constructs: " + "; ".join(bad)
        proj = "-Q . FDAV\n" + "\n".join(coq_files()) + "\n"
        pf = COQ / "_CoqProject"
        if not pf.exists() or pf.read_text() != proj:
            pf.write_text(proj)
            rc, out = _run(["coq_makefile", "-f", "_CoqProject", "-o", "Makefile"], cwd=COQ)
            if rc != 0:
                return False, out
        elif not (COQ / "Makefile").exists():
            rc, out = _run(["coq_makefile", "-f", "_CoqProject", "-o", "Makefile"], cwd=COQ)
            if rc != 0:
                return False, out
        # a per-file limit as well: a tactic that loops must not hold the build lock for the whole budget
        rc, out = _run(["timeout", "1500", "make", "-k", f"-j{NPROC}", "COQC=timeout 600 coqc"], cwd=COQ, timeout=1600)
        if rc != 0:
            # fail closed per file: a file that no longer compiles must not leave a stale .vo behind,
            # so that everything depending on it fails to load (other properties stay checkable)
            for m in re.finditer(r'File "\./([\w/]+)\.v", line \d+, characters [\d-]+:\s*\n\s*Error', out):
                for ext in (".vo", ".vos", ".vok", ".glob"):
                    try:
                        (COQ / (m.group(1) + ext)).unlink()
                    except FileNotFoundError:
                        pass
        if verbose:
            print(out[-3000:])
        return rc == 0, out[-6000:]
    finally:
        fcntl.flock(lock, fcntl.LOCK_UN)
        lock.close()


def check_props(pid: str) -> dict:
    """Re-run coqc on Props/<pid>.v; count theorems and harvested assumption blocks."""
    f = COQ / "Props" / f"{pid}.v"
    src = re.sub(r"\(\*.*?\*\)", "", f.read_text(), flags=re.S)
    names = re.findall(r"^\s*(?:Theorem|Lemma)\s+(\w+)", src, flags=re.M)
    printed = re.findall(r"^\s*Print Assumptions\s+(\w+)\s*\.", src, flags=re.M)
    cmd = f"coqc -Q . FDAV Props/{pid}.v"
    t0 = time.time()
    rc, out = _run(["timeout", "900", "coqc", "-Q", ".", "FDAV", f"Props/{pid}.v"], cwd=COQ, timeout=1000)
    blocks = len(re.findall(r"^(Closed under the global context|Axioms:)", out, flags=re.M))
    axioms = sorted(set(re.findall(r"^([A-Z]\w*(?:\.\w+)+)\s*$", out, flags=re.M))
                    | set(re.findall(r"^([A-Z]\w*(?:\.\w+)+)\s*:", out, flags=re.M)))
    foreign = [a for a in axioms if a not in STD_AXIOMS]
    ok = rc == 0 and blocks == len(printed) and set(printed) >= set(names) and not foreign
    return {"ok": ok, "rc": rc, "theorems": names, "obligations": len(names),
            "discharged": blocks if rc == 0 else 0, "axioms": axioms, "foreign_axioms": foreign,
            "checker_cmd": f"cd /verif/coq && make && {cmd}", "output_tail": out[-2500:],
            "wall_s": round(time.time() - t0, 1)}


# --------------------------------------------------------------------------
# numbers
# --------------------------------------------------------------------------
def qlit(x) -> str:
    """Exact Coq Q literal of a float / int / Fraction."""
    if isinstance(x, Fraction):
        n, d = x.numerator, x.denominator
    else:
        xf = float(x)
        if xf != xf or xf in (float("inf"), float("-inf")):
            raise ValueError(f"non-finite value {x!r} cannot be given to the model")
        n, d = xf.as_integer_ratio()
    return f"(Qmake ({n}) {d})" if n < 0 else f"(Qmake {n} {d})"


def qlist(xs) -> str:
    return "[" + "; ".join(qlit(x) for x in xs) + "]"


def qmat(rows) -> str:
    return "[" + "; ".join(qlist(r) for r in rows) + "]"


def natlist(xs) -> str:
    return "[" + "; ".join(f"{int(x)}%nat" for x in xs) + "]"


def blit(b) -> str:
    return "true" if b else "false"


def dyadic(rng, lo=-4.0, hi=4.0, bits=6, size=None):
    """Random dyadic rationals with `bits` fractional bits (exact in double and small in Q)."""
    import numpy as np
    s = 2 ** bits
    return np.round(rng.uniform(lo, hi, size=size) * s) / s


# --------------------------------------------------------------------------
# model evaluation by vm_compute in generated case files
# --------------------------------------------------------------------------
HEADER = """From Coq Require Import List QArith Bool ZArith.
Import ListNotations.
{imports}
Local Open Scope Q_scope.
"""


class CoqRun:
    """Collect boolean (or Q-valued) model terms, evaluate them in shards."""

    def __init__(self, pid: str, imports: str, shard: int = 60):
        self.pid = pid
        self.imports = imports
        self.shard = shard
        self.terms: list[str] = []
        self.defs: list[str] = []          # auxiliary definitions attached to each term
        self._pending: list[str] = []
        self._nid = 0

    # Large literals elaborate super-linearly inside one term: hoist them into small typed definitions.
    def vec(self, xs) -> str:
        self._nid += 1
        name = f"v{self._nid}"
        self._pending.append(f"Definition {name} : list Q := {qlist(xs)}.")
        return name

    def mat(self, rows) -> str:
        self._nid += 1
        name = f"m{self._nid}"
        rnames = []
        for i, r in enumerate(rows):
            rn = f"{name}_r{i}"
            self._pending.append(f"Definition {rn} : list Q := {qlist(r)}.")
            rnames.append(rn)
        self._pending.append(f"Definition {name} : list (list Q) := [" + "; ".join(rnames) + "].")
        return name

    def add(self, term: str) -> int:
        self.terms.append(term)
        self.defs.append("\n".join(self._pending))
        self._pending = []
        return len(self.terms) - 1

    def run(self, kind="bool") -> list:
        if not self.terms:
            return []
        d = Path(tempfile.mkdtemp(prefix=f"{self.pid}_", dir=_scratch()))
        try:
            files = []
            for si in range(0, len(self.terms), self.shard):
                chunk = self.terms[si:si + self.shard]
                f = d / f"cases_{si // self.shard:04d}.v"
                body = [HEADER.format(imports=self.imports)]
                for j, t in enumerate(chunk):
                    if self.defs[si + j]:
                        body.append(self.defs[si + j])
                    body.append(f"Definition c{j} := {t}.")
                for j in range(len(chunk)):
                    body.append(f'Goal True. idtac "@@{si + j}". Abort.')
                    body.append(f"Eval vm_compute in c{j}.")
                f.write_text("\n".join(body) + "\n")
                files.append(f)
            outs = _parallel_coqc(files)
            res = [None] * len(self.terms)
            for out in outs:
                for m in re.finditer(r"@@(\d+)\s*\n\s*=\s*(.*?)\n\s*:\s", out, flags=re.S):
                    idx = int(m.group(1))
                    val = " ".join(m.group(2).split())
                    res[idx] = val
            missing = [i for i, r in enumerate(res) if r is None]
            if missing:
                raise RuntimeError(
                    f"model evaluation failed for {len(missing)} terms; first output:\n" + outs[0][-3000:])
            if kind == "bool":
                return [r == "true" for r in res]
            return res
        finally:
            shutil.rmtree(d, ignore_errors=True)


def _scratch() -> str:
    SCRATCH.mkdir(parents=True, exist_ok=True)
    return str(SCRATCH)


def _parallel_coqc(files) -> list[str]:
    from concurrent.futures import ThreadPoolExecutor

    def one(f):
        rc, out = _run(["timeout", "900", "coqc", "-Q", str(COQ), "FDAV", "-Q", str(f.parent), "Cases", str(f)],
                       cwd=f.parent, timeout=1000)
        return out
    with ThreadPoolExecutor(max_workers=NPROC) as ex:
        return list(ex.map(one, files))


def parse_q(s: str) -> Fraction:
    s = s.strip().strip("()")
    m = re.match(r"^\s*\(?\s*(-?\s*\d+)\s*\)?\s*#\s*(\d+)\s*$", s)
    if not m:
        raise ValueError(f"cannot parse Q value {s!r}")
    return Fraction(int(m.group(1).replace(" ", "")), int(m.group(2)))


# --------------------------------------------------------------------------
# findings, replays, evidence
# --------------------------------------------------------------------------
def known_findings(pid: str) -> list[dict]:
    f = VERIF / "known_findings.json"
    if not f.exists():
        return []
    data = json.loads(f.read_text())
    return [e for e in data.get("open", []) if e["property"] == pid]


class Report:
    def __init__(self, pid: str):
        self.pid = pid
        self.t0 = time.time()
        self.violations: list[dict] = []
        self.known: dict[str, dict] = {}
        self.evaluations = 0
        self.nontrivial: set = set()
        self.samples: list = []
        self.dist: dict = {}
        self.disagreements_checked = 0
        self.notes: list[str] = []
        self.extra: dict = {}

    # -- counting ------------------------------------------------------
    def case(self, key, nontrivial=True, sample=None, kind=None):
        self.evaluations += 1
        if nontrivial:
            self.nontrivial.add(hashlib.sha1(repr(key).encode()).hexdigest())
        if sample is not None and len(self.samples) < 6:
            self.samples.append(sample)
        if kind is not None:
            self.dist[kind] = self.dist.get(kind, 0) + 1

    # -- outcomes ------------------------------------------------------
    def known_finding(self, fid: str, what: str, example=None):
        e = self.known.setdefault(fid, {"what": what, "count": 0, "example": example})
        e["count"] += 1

    def violation(self, what: str, replay: dict, no_input=False):
        REPLAYS.mkdir(exist_ok=True)
        (REPLAYS / self.pid).mkdir(exist_ok=True)
        blob = json.dumps(replay, sort_keys=True, default=str)
        h = hashlib.sha1(blob.encode()).hexdigest()[:12]
        path = REPLAYS / self.pid / f"{h}.json"
        replay = dict(replay)
        replay.update({"property": self.pid, "what": what, "seed": seed(), "tier": tier(),
                       "replay_cmd": f"./check {self.pid} --replay {path}"})
        path.write_text(json.dumps(replay, indent=1, default=str))
        self.violations.append({"what": what, "replay": str(path), "no_input": no_input})

    # -- final ---------------------------------------------------------
    def finish(self, props: dict, rule: str, assumptions: list[str], level_note: str = "") -> int:
        valid_known = {e["id"] for e in known_findings(self.pid)}
        for fid, e in list(self.known.items()):
            if fid not in valid_known:
                # a defect-model match that the committed findings file does not list is a violation
                self.violation(f"unlisted finding {fid}: {e['what']}", {"finding": fid, "example": e["example"]})
                del self.known[fid]
        cov = {
            "obligations": props.get("obligations", 0),
            "discharged": props.get("discharged", 0),
            "checker_cmd": props.get("checker_cmd", ""),
            "trusted_base": ["Coq 8.16.1 kernel (coqc; vm_compute used, native_compute not used)"]
                            + [f"axiom {a}" for a in props.get("axioms", [])]
                            + ["Paramcoq-generated terms are kernel-checked (not trusted)",
                               "hand-written model tied to /repo by the correspondence run of this check"],
            "theorems": props.get("theorems", []),
            "evaluations": self.evaluations,
            "distinct_nontrivial": len(self.nontrivial),
            "rule": rule,
            "samples": self.samples or ["(no case generated)"],
            "programs": self.evaluations,
            "disagreements_checked": self.disagreements_checked,
            "input_distribution": self.dist,
            "known_findings_seen": {k: v["count"] for k, v in self.known.items()},
            "notes": self.notes,
        }
        cov.update(self.extra)
        ev = {
            "property_id": self.pid, "tier": tier(), "seed": seed(), "level": "proof",
            "coverage": cov, "assumptions": assumptions,
            "wall_s": round(time.time() - self.t0, 2), "violations": len(self.violations),
        }
        EVID.mkdir(exist_ok=True)
        (EVID / f"{self.pid}.json").write_text(json.dumps(ev, indent=1, default=str))
        for fid, e in self.known.items():
            print(f"KNOWN-FINDING: property={self.pid} {fid}: {e['what']} (seen {e['count']}x)")
        for v in self.violations[:20]:
            tail = " no-failing-input-found" if v["no_input"] else ""
            print(f"VIOLATION property={self.pid} replay={v['replay']}{tail}")
            print(f"  -> {v['what']}")
        if not self.violations:
            print(f"OK property={self.pid} theorems={cov['discharged']}/{cov['obligations']} "
                  f"cases={self.evaluations} nontrivial={len(self.nontrivial)} wall={ev['wall_s']}s")
        return 1 if self.violations else 0


def proof_gate(rep: Report, pid: str) -> dict:
    """Build + re-check the property file.  A failure is recorded; the caller goes on
    to search the implementation for a failing input."""
    ok, out = build()
    if not ok:
        # some file of the development does not compile; this property is still decided by
        # whether ITS OWN Props file (and everything it loads) checks — stale objects were removed
        rep.extra["build_error"] = out[-1500:]
        if "forbidden constructs" in out:
            return {"ok": False, "obligations": 0, "discharged": 0, "axioms": [], "theorems": [],
                    "checker_cmd": "cd /verif/coq && make", "output_tail": out[-2500:]}
    props = check_props(pid)
    if not props["ok"]:
        rep.extra["props_error"] = props["output_tail"]
    # numeric properties evaluate the opsQ instance while their theorems are about opsR: the bridge
    # (Props/Transfer.v, built by make) must have been checked by the kernel in this build
    if pid in NUMERIC and not (COQ / "Props" / "Transfer.vo").exists():
        props["ok"] = False
        props["output_tail"] = "Props/Transfer.vo is missing: the Q/R transfer theorems no longer check"
        rep.extra["props_error"] = props["output_tail"]
    props["bridge"] = "Props/Transfer.v (kernel-checked in this build)" if pid in NUMERIC else "n/a (discrete model)"
    return props


def hexf(a):
    import numpy as np
    a = np.asarray(a, dtype=float)
    if a.ndim == 0:
        return float(a).hex()
    return [hexf(x) for x in a]


def unhex(a):
    import numpy as np
    if isinstance(a, str):
        return float.fromhex(a)
    return np.array([unhex(x) for x in a], dtype=float)


def defaults_snapshot():
    """repr of every mutable default argument of every function / method defined in the FDApy package (module- and
    function-level state that can leak from one call into the next)."""
    import importlib
    import inspect
    import pkgutil
    import FDApy
    snap = {}
    for mi in pkgutil.walk_packages(FDApy.__path__, "FDApy."):
        try:
            mod = importlib.import_module(mi.name)
        except Exception:  # noqa: BLE001
            continue
        fns = []
        for _, obj in inspect.getmembers(mod):
            if inspect.isfunction(obj) and obj.__module__ == mod.__name__:
                fns.append((obj.__qualname__, obj))
            elif inspect.isclass(obj) and obj.__module__ == mod.__name__:
                for _, m in inspect.getmembers(obj, predicate=inspect.isfunction):
                    fns.append((m.__qualname__, m))
        for qn, f in fns:
            for k, v in enumerate(f.__defaults__ or ()):
                if isinstance(v, (dict, list, set)) or type(v).__module__ == "numpy":
                    snap[f"{mod.__name__}.{qn}#default{k}"] = repr(v)
            for k, v in (f.__kwdefaults__ or {}).items():
                if isinstance(v, (dict, list, set)) or type(v).__module__ == "numpy":
                    snap[f"{mod.__name__}.{qn}#{k}"] = repr(v)
    return snap
