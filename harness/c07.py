"""C07 — a smoothed value depends only on the data and on its own location."""
from __future__ import annotations

import warnings

import numpy as np

from harness import common as C
from harness import fd

IMPORTS = "From FDAV Require Import Base.Num Base.Vec Base.Cmp Model.Basis Model.Smooth Tie.C07."
RULE = ("dense and irregular 1-D datasets (and 2-D dense data for smooth) on [0,1], [-1,0], [1,365], [100,101] grids; smoothers PSplines and "
        "LocalPolynomial directly, and the entry points smooth / mean / covariance of DenseFunctionalData and IrregularFunctionalData with "
        "methods PS and LP, explicit AND default smoothing parameters; for every pair of query sets Q' subset of Q (sub-ranges, thinned grids, "
        "single points, permutations, off-grid points inside the range, queries excluding a domain end point): values at shared locations must "
        "coincide; PSplines.predict is additionally compared with the pointwise model (exact Cox-de Boor basis on the FIT domain, the "
        "implementation's coefficients) and predict(x_fit) with y_hat. Non-trivial: Q' is a proper subset; distinct by data, entry point, "
        "method and query pair.")
ASSUME = ["metamorphic comparison tolerance 1e-9*scale (same computation, different query set)",
          "thin theorems (congruence laws): the assurance is this correspondence run"]


def query_sets(rng, grid):
    """(name, Q') pairs, Q' subset of the full query Q built below; all inside the range of the grid."""
    a, b = grid[0], grid[-1]
    m = len(grid)
    off = a + (b - a) * np.round(rng.uniform(0.05, 0.95, size=3) * 64) / 64
    near = off + (b - a) * 2.0 ** -12          # distinct locations very close to other requested locations
    Q = np.unique(np.concatenate([grid, off, near]))
    subs = [
        ("sub-range", Q[(Q >= a + 0.2 * (b - a)) & (Q <= a + 0.8 * (b - a))]),
        ("thinned", Q[::3]),
        ("single", Q[[len(Q) // 2]]),
        ("right-part", Q[len(Q) // 2:]),              # excludes the left end of the domain
        ("left-part", Q[: len(Q) // 2 + 1]),          # excludes the right end
        ("interior", Q[1:-1]),
        ("off-grid-only", np.sort(off)),
        ("near-neighbours-only", np.sort(near)),        # without the locations they are close to
        ("permuted", rng.permutation(Q)),
    ]
    new = np.setdiff1d(np.concatenate([off, near]), grid)
    if 0 < len(new) <= m - 2:
        # as many locations as the sampling grid, but not the sampling grid (sorted, so usable by every entry point)
        drop = grid[1:-1][:: max(1, (m - 2) // len(new))][: len(new)]
        subs.insert(5, ("same-count", np.setdiff1d(Q, drop)))
    return Q, [(n_, s) for n_, s in subs if len(s) >= 1]


def compare(rep, what, f, Q, subs, scale, info, sorted_only=False):
    """f(points 1-D array) -> array whose LAST axis runs over the points."""
    with warnings.catch_warnings():
        warnings.simplefilter("ignore")
        full = np.asarray(f(Q), float)
    for name, S in subs:
        if sorted_only and name == "permuted":
            continue
        with warnings.catch_warnings():
            warnings.simplefilter("ignore")
            try:
                part = np.asarray(f(S), float)
            except Exception as e:  # noqa: BLE001
                rep.violation(f"{what}: query set '{name}' raised {type(e).__name__}: {e}"[:300], {**info, "query": C.hexf(S)})
                continue
        idx = [int(np.flatnonzero(Q == s)[0]) for s in S]
        rep.case((what, name, info.get("key"), S.tobytes()), nontrivial=len(S) < len(Q), kind=f"{what}/{name}",
                 sample={"entry": what, "query_set": name, "n_query": len(S), "n_full": len(Q)})
        ref = full[..., idx]
        if part.shape != ref.shape:
            rep.violation(f"{what}: result for query set '{name}' has shape {part.shape}, expected {ref.shape}",
                          {**info, "query": C.hexf(S)})
            continue
        both_nan = np.isnan(part) & np.isnan(ref)
        dev = np.where(both_nan, 0.0, np.abs(part - ref))
        if not np.all(np.isfinite(dev)) or np.max(dev, initial=0) > 1e-9 * scale:
            rep.violation(f"{what}: the value at a location changes with the other requested locations "
                          f"(query set '{name}', max deviation {np.nanmax(dev):.3g})",
                          {**info, "query_full": C.hexf(Q), "query_sub": C.hexf(S), "set": name})


def integer_queries(rep):
    """Whole-number locations (days, indices) given as INTEGER arrays are the same locations as the same numbers as floats:
    the value at a location does not depend on the dtype of the query array, nor on which other locations come with it."""
    from FDApy.preprocessing.smoothing.psplines import PSplines
    from FDApy.preprocessing.smoothing.local_polynomial import LocalPolynomial
    rng = np.random.default_rng([C.seed(), 7, 31])
    for rnd in range(3):
        m = int(rng.integers(24, 41))
        xi = np.arange(1, m + 1)
        xf = xi.astype(float)
        y = np.round((10.0 * np.sin(xf / 6.0) + rng.normal(size=m)) * 64) / 64
        qi = np.arange(2, m, int(rng.integers(2, 5)))
        halves = np.sort(np.concatenate([qi.astype(float), qi[:-1] + 0.5]))
        bad = []
        for kern, deg in (("epanechnikov", 1), ("gaussian", 2), ("epanechnikov", 0)):
            with warnings.catch_warnings():
                warnings.simplefilter("ignore")
                try:
                    mk = lambda: LocalPolynomial(kernel_name=kern, bandwidth=6.0, degree=deg)   # noqa: E731
                    ref = np.asarray(mk().predict(y=y, x=xf, x_new=qi.astype(float)), float)
                    got_i = np.asarray(mk().predict(y=y, x=xf, x_new=qi), float)
                    sup = np.asarray(mk().predict(y=y, x=xf, x_new=halves), float)[np.searchsorted(halves, qi.astype(float))]
                    at_x_f = np.asarray(mk().predict(y=y, x=xf), float)
                    at_x_i = np.asarray(mk().predict(y=y, x=xi), float)
                except Exception as e:  # noqa: BLE001
                    bad.append(f"LocalPolynomial({kern}, degree={deg}) raised {type(e).__name__}: {str(e)[:80]}")
                    continue
            sc = max(1.0, float(np.max(np.abs(y))))
            for lab, a_, b_ in (("an integer-dtype query differs from the same locations as floats", got_i, ref),
                                ("a float superset of the query gives other values at the common locations", sup, ref),
                                ("integer-dtype sampling points (x_new=None) differ from the same points as floats", at_x_i, at_x_f)):
                if a_.shape != b_.shape or np.max(np.abs(a_ - b_)) > 1e-9 * sc:
                    bad.append(f"LocalPolynomial({kern}, degree={deg}): {lab} (max "
                               f"{float(np.max(np.abs(a_ - b_))) if a_.shape == b_.shape else float('nan'):.3g})")
        with warnings.catch_warnings():
            warnings.simplefilter("ignore")
            try:
                ps = PSplines(n_segments=5, degree=3)
                ps.fit(y, xf, penalty=1.0)
                pf, pi = np.asarray(ps.predict(qi.astype(float)), float), np.asarray(ps.predict(qi), float)
                if pf.shape != pi.shape or np.max(np.abs(pf - pi)) > 1e-9 * max(1.0, float(np.max(np.abs(y)))):
                    bad.append("PSplines.predict: an integer-dtype query differs from the same locations as floats")
            except Exception as e:  # noqa: BLE001
                bad.append(f"PSplines with an integer-dtype query raised {type(e).__name__}: {str(e)[:80]}")
        rep.case(("integer-queries", rnd, y.tobytes()), kind="integer-dtype-queries")
        if bad:
            rep.violation("whole-number locations: " + "; ".join(bad), {"x": xi.tolist(), "y": C.hexf(y), "query": qi.tolist()})


def run(rep, props, replay=None):
    from FDApy.preprocessing.smoothing.psplines import PSplines
    from FDApy.preprocessing.smoothing.local_polynomial import LocalPolynomial
    from FDApy.representation.argvals import DenseArgvals
    quick = C.tier() == "quick"
    rng = np.random.default_rng([C.seed(), 7])
    runq = C.CoqRun("C07", IMPORTS, shard=6)
    todo = []
    integer_queries(rep)
    domains = [(0.0, 1.0), (-1.0, 0.0), (1.0, 365.0), (100.0, 101.0)]
    n_cases = 4 if quick else 40
    for i in range(n_cases):
        a, b = domains[i % len(domains)]
        m = int(rng.integers(12, 21 if quick else 60))
        grid = a + (b - a) * np.linspace(0, 1, m) if i % 2 == 0 else \
            a + (b - a) * np.unique(np.concatenate([[0, 1], np.round(rng.uniform(0, 1, size=m) * 128) / 128]))
        m = len(grid)
        n = int(rng.integers(3, 7))
        u = (grid - a) / (b - a)
        X = np.round((np.sin(4 * u)[None, :] * rng.uniform(1, 3, size=(n, 1)) + rng.normal(size=(n, m)) * 0.2 + 1.0) * 256) / 256
        sc = max(1.0, float(np.max(np.abs(X))))
        Q, subs = query_sets(rng, grid)
        key = (a, b, X.tobytes())
        info = {"key": key[2][:16].hex(), "grid": C.hexf(grid), "X": C.hexf(X), "domain": [a, b]}
        pts = lambda S: DenseArgvals({"input_dim_0": np.asarray(S, float)})     # noqa: E731
        bw = 0.3 * (b - a)

        # ---- the smoothers themselves
        nseg, deg = int(rng.integers(2, 7)), int(rng.integers(1, 4))
        ps = PSplines(n_segments=nseg, degree=deg)
        with warnings.catch_warnings():
            warnings.simplefilter("ignore")
            ps.fit(X[0], grid, penalty=float(2.0 ** rng.integers(-6, 7)))
            yhat = np.asarray(ps.y_hat, float)
            beta = np.asarray(ps.beta_hat, float)
            pfit = np.asarray(ps.predict(grid), float)
        if np.max(np.abs(pfit - yhat)) > 1e-10 * sc:
            rep.violation("PSplines.predict at the fitting grid differs from y_hat", info)
        compare(rep, "PSplines.predict", lambda S: ps.predict(np.asarray(S, float)), Q, subs, sc, info)
        # ... with observation weights, and for a surface (n-D fit): evaluating at the sampling points returns the fitted values
        wts = np.round(rng.uniform(0.25, 2.0, size=m) * 16) / 16
        g2 = a + (b - a) * np.linspace(0, 1, 6)
        Y2 = np.round((np.outer(np.sin(3 * u), np.cos(2 * np.linspace(0, 1, 6))) + 0.1 * rng.normal(size=(m, 6))) * 256) / 256
        W2 = np.round(rng.uniform(0.25, 2.0, size=(m, 6)) * 16) / 16
        W2[0, 0] = 0.0
        with warnings.catch_warnings():
            warnings.simplefilter("ignore")
            try:
                pw = PSplines(n_segments=nseg, degree=deg)
                pw.fit(X[0], grid, sample_weights=wts, penalty=1.0)
                d1 = float(np.max(np.abs(np.asarray(pw.predict(grid), float) - np.asarray(pw.y_hat, float))))
                p2 = PSplines(n_segments=np.array([nseg, 2]), degree=np.array([deg, 2]))
                p2.fit(Y2, [grid, g2], sample_weights=W2, penalty=(1.0, 0.5))
                d2 = float(np.max(np.abs(np.asarray(p2.predict([grid, g2]), float) - np.asarray(p2.y_hat, float))))
            except Exception as e:  # noqa: BLE001
                rep.violation(f"weighted PSplines fit / predict raised {type(e).__name__}: {e}"[:300], info)
                d1 = d2 = 0.0
        rep.case(("ps-weighted-predict", key[2][:8]), kind="PSplines.predict/weighted-at-fit-grid")
        if d1 > 1e-9 * sc or d2 > 1e-9 * max(1.0, float(np.max(np.abs(Y2)))):
            rep.violation(f"weighted P-spline fit: predict at the sampling points differs from the fitted values (1-D: {d1:.3g}, 2-D: {d2:.3g})",
                          {**info, "weights_1d": C.hexf(wts), "Y2": C.hexf(Y2), "W2": C.hexf(W2), "grid2": C.hexf(g2)})
        for name, S in [("full", Q)] + subs[:5]:
            with warnings.catch_warnings():
                warnings.simplefilter("ignore")
                yp = np.asarray(ps.predict(np.asarray(S, float)), float)
            t = runq.add(f"ps_ok {C.qlit(1e-8 * sc)} {C.qlist(beta)} {C.qlit(a)} {C.qlit(b)} {nseg}%nat {deg}%nat "
                         f"{C.qlist(S)} {C.qlist(yp)}")
            todo.append((t, name, info, S))
        for kern in ("epanechnikov", "gaussian"):
            lp = LocalPolynomial(kernel_name=kern, bandwidth=bw, degree=int(rng.integers(0, 3)))
            compare(rep, f"LocalPolynomial.predict/{kern}",
                    lambda S, lp=lp: lp.predict(y=X[0], x=grid, x_new=np.asarray(S, float)), Q, subs, sc, info)

        # ---- dense entry points (explicit and default parameters)
        d = fd.dense(grid, X)
        variants = [("PS", dict(method="PS", penalty=0.5, n_segments=nseg, degree=deg)),
                    ("PS-default", dict(method="PS")),
                    ("LP", dict(method="LP", bandwidth=bw, degree=1)),
                    ("LP-default", dict(method="LP"))]
        for vn, kw in variants:
            compare(rep, f"Dense.smooth/{vn}", lambda S, kw=kw: d.smooth(points=pts(S), **kw).values, Q, subs, sc, info,
                    sorted_only=True)
        for vn, kw in [("PS", dict(method_smoothing="PS", penalty=0.5, n_segments=nseg)), ("LP", dict(method_smoothing="LP", bandwidth=bw)),
                       ("LP-default", dict(method_smoothing="LP")), ("PS-default", dict(method_smoothing="PS"))]:
            compare(rep, f"Dense.mean/{vn}", lambda S, kw=kw: d.mean(points=pts(S), **kw).values, Q, subs, sc, info,
                    sorted_only=True)
        with warnings.catch_warnings():
            warnings.simplefilter("ignore")
            s0 = np.asarray(d.smooth(method="PS", penalty=0.5, n_segments=nseg, degree=deg).values)
            s1 = np.asarray(d.smooth(points=pts(grid), method="PS", penalty=0.5, n_segments=nseg, degree=deg).values)
        if np.max(np.abs(s0 - s1)) > 1e-10 * sc:
            rep.violation("Dense.smooth(points=None) differs from smoothing at the original sampling points", info)
        if i % 2 == 0:
            covsubs = [(n_, s) for n_, s in subs if n_ in ("sub-range", "thinned", "right-part", "interior")]
            for vn, kw in [("LP", dict(method_smoothing="LP", bandwidth=bw)), ("PS", dict(method_smoothing="PS", n_segments=4, penalty=(1.0, 1.0))),
                           ("PS-default", dict(method_smoothing="PS")), ("LP-default", dict(method_smoothing="LP"))]:
                def fcov(S, kw=kw):
                    c = np.asarray(d.covariance(points=pts(S), **kw).values)[0]
                    return c                      # (len S, len S): compare the sub-block
                with warnings.catch_warnings():
                    warnings.simplefilter("ignore")
                    full = fcov(Q)
                for name, S in covsubs:
                    with warnings.catch_warnings():
                        warnings.simplefilter("ignore")
                        part = fcov(S)
                    idx = [int(np.flatnonzero(Q == s)[0]) for s in S]
                    rep.case(("cov", vn, name, key[2][:8], S.tobytes()), kind=f"Dense.covariance/{vn}/{name}")
                    dev = np.abs(part - full[np.ix_(idx, idx)])
                    if not np.all(np.isfinite(dev)) or dev.max() > 1e-8 * sc * sc:
                        rep.violation(f"Dense.covariance/{vn}: the value at a pair of locations changes with the other requested locations "
                                      f"(query set '{name}', max deviation {np.nanmax(dev):.3g})",
                                      {**info, "query_full": C.hexf(Q), "query_sub": C.hexf(S)})

        # ---- irregular entry points
        masks = rng.uniform(size=(n, m)) < 0.8
        masks[:, [0, -1]] = True
        for k in range(n):
            if masks[k].sum() < 6:
                masks[k, :6] = True
        irr = fd.irregular([grid[masks[k]] for k in range(n)], [X[k][masks[k]] for k in range(n)])
        for vn, kw in [("PS", dict(method="PS", penalty=0.5, n_segments=nseg, degree=deg)), ("LP", dict(method="LP", bandwidth=bw, degree=1)),
                       ("LP-default", dict(method="LP")), ("PS-default", dict(method="PS"))]:
            compare(rep, f"Irregular.smooth/{vn}", lambda S, kw=kw: irr.smooth(points=pts(S), **kw).values, Q, subs, sc, info,
                    sorted_only=True)
        for vn, kw in [("LP", dict(method_smoothing="LP", bandwidth=bw)), ("PS", dict(method_smoothing="PS", n_segments=nseg, penalty=(0.5,))),
                       ("LP-default", dict(method_smoothing="LP"))]:
            compare(rep, f"Irregular.mean/{vn}", lambda S, kw=kw: irr.mean(points=pts(S), **kw).values, Q, subs, sc, info,
                    sorted_only=True)
        if i % 2 == 1:
            covsubs = [(n_, s_) for n_, s_ in subs if n_ in ("sub-range", "thinned", "right-part", "interior")]
            for vn, kw in [("LP", dict(method_smoothing="LP", bandwidth=bw, kwargs_center=dict(bandwidth=bw)))]:
                def fcov_i(S, kw=kw):
                    return np.asarray(irr.covariance(points=pts(S), **kw).values)[0]
                try:
                    with warnings.catch_warnings():
                        warnings.simplefilter("ignore")
                        full = fcov_i(Q)
                    for name, S in covsubs:
                        with warnings.catch_warnings():
                            warnings.simplefilter("ignore")
                            part = fcov_i(S)
                        idx = [int(np.flatnonzero(Q == s_)[0]) for s_ in S]
                        rep.case(("icov", vn, name, key[2][:8], S.tobytes()), kind=f"Irregular.covariance/{vn}/{name}")
                        dev = np.abs(part - full[np.ix_(idx, idx)])
                        if not np.all(np.isfinite(dev)) or dev.max() > 1e-8 * sc * sc:
                            rep.violation(f"Irregular.covariance/{vn}: the value at a pair of locations changes with the other requested "
                                          f"locations (query set '{name}', max deviation {np.nanmax(dev):.3g})",
                                          {**info, "query_full": C.hexf(Q), "query_sub": C.hexf(S), "mask": masks.astype(int).tolist()})
                except Exception as e:  # noqa: BLE001
                    rep.notes.append(f"Irregular.covariance/{vn} raised {type(e).__name__}: {e}"[:200])
        # ---- 2-D dense smoothing: product query grids, sub-grids
        if i % 4 == 0:
            g2 = np.linspace(0, 2, 7)
            X2 = np.round(rng.normal(size=(2, m, 7)) * 16) / 16 + np.sin(u)[None, :, None]
            d2 = fd.dense([grid, g2], X2)
            for vn, kw in [("PS", dict(method="PS", n_segments=np.array([nseg, 3]), degree=np.array([deg, 2]), penalty=(0.5, 2.0)))]:
                with warnings.catch_warnings():
                    warnings.simplefilter("ignore")
                    full = np.asarray(d2.smooth(points=DenseArgvals({"input_dim_0": grid, "input_dim_1": g2}), **kw).values)
                    S1, S2 = grid[m // 3:], g2[1:5]
                    part = np.asarray(d2.smooth(points=DenseArgvals({"input_dim_0": S1, "input_dim_1": S2}), **kw).values)
                rep.case(("2d", key[2][:8]), kind="Dense.smooth-2D/PS")
                dev = np.abs(part - full[:, m // 3:, 1:5])
                if not np.all(np.isfinite(dev)) or dev.max() > 1e-9 * sc:
                    rep.violation(f"Dense.smooth 2-D/{vn}: values on a sub-grid differ from the full-grid values (max {np.nanmax(dev):.3g})",
                                  {**info, "X2": C.hexf(X2)})
    res = runq.run()
    for t, name, info, S in todo:
        rep.case(("ps-model", name, info["key"], np.asarray(S).tobytes()), kind=f"PSplines.predict=model/{name}")
        if not res[t]:
            rep.disagreements_checked += 1
            rep.violation(f"PSplines.predict on query set '{name}' differs from the pointwise model (basis on the FIT domain, "
                          "implementation's coefficients)", {**info, "query": C.hexf(S)})
