"""C03 — scores decorrelate the data and inverse_transform undoes transform."""
from __future__ import annotations

import warnings

import numpy as np

from harness import common as C
from harness import fd

IMPORTS = "From FDAV Require Import Base.Num Base.Vec Base.Quad Base.Cmp Model.Scores Tie.C03."
# (madd from Base.Vec is used to sum the per-component score matrices of MFPCA)
F2 = "F2"
F2_WHAT = ("UFPCA.transform(data) with normalize=True rescales the UNCENTRED data (data.rescale instead of data_new.rescale): explicit "
           "scoring of the training curves differs from scoring the stored training data (suite pins the uncentred scores)")
F18_WHAT = ("MFPCA.fit centres the training data with a P-spline-SMOOTHED version of the mean it reports "
            "(center(mean, method_smoothing='PS')): the stored training data are not the curves minus MFPCA.mean, so "
            "transform(None) differs from scoring the training curves with the reported mean (suite pins it)")
RULE = ("dense 1-D datasets of exact rank r (n_obs 4..9 / 4..30, 5..12 / 5..40 points, five grid kinds, offsets, scales) and 2-D datasets "
        "(inner-product method): every combination method x normalize x n_components in {1, 2, r}: stored-data NumInt / InnPro scores vs "
        "the exact Q model fed with the implementation's mean, weight, eigenfunctions; score cross-products (n-1)*lambda (covariance) and "
        "n*lambda (Gram); explicit transform(X_train) vs transform(None) (defect model for F2); inverse_transform vs the affine model on "
        "training and random scores; round trip when n_components = rank. Non-trivial: >= 2 components; distinct by data bytes and options.")
ASSUME = ["exact-arithmetic model fed with the implementation's mean / weight / eigenfunctions (their correctness is C02's matter)",
          "PACE scores: only well-formedness is checked (no exception, finite, right shape); their shrinkage relation is not modelled",
          "tolerance 1e-8*scale for scores and reconstructions, 1e-7*scale^2 for score cross-products"]


def fit(d, method, normalize, ncomp):
    from FDApy.preprocessing.dim_reduction.ufpca import UFPCA
    with warnings.catch_warnings():
        warnings.simplefilter("ignore")
        f = UFPCA(n_components=ncomp, method=method, normalize=normalize)
        f.fit(d, method_smoothing=None)
    return f


def full_rank_pairing(rep):
    """Every component kept on rough, full-rank curves (the solver returns such spectra in no particular order): score column k
    has the variance of the eigenvalue REPORTED in place k — whatever the order, the three lists (eigenvalues, eigenfunctions,
    scores) go together."""
    rng = np.random.default_rng([C.seed(), 3, 7])
    for n, m in ((30, 12), (14, 9)):
        x = np.linspace(0, 1, m)
        X = np.round((np.sin(2 * np.pi * x)[None, :] * rng.normal(size=(n, 1)) + rng.normal(size=(n, m))) * 64) / 64
        for method, how, dof in (("covariance", "NumInt", n - 1), ("inner-product", "InnPro", n)):
            try:
                f = fit(fd.dense(x, X), method, False, None)
                with warnings.catch_warnings():
                    warnings.simplefilter("ignore")
                    S = np.asarray(f.transform(None, method=how), float)
                lam = np.asarray(f.eigenvalues, float)
            except Exception as e:  # noqa: BLE001
                rep.notes.append(f"full-rank pairing monitor: UFPCA({method}) raised {type(e).__name__}"[:120])
                continue
            keep = np.isfinite(S).all(axis=0) & (lam > 1e-8 * float(np.max(lam)))
            if S.shape != (n, len(lam)) or keep.sum() < 2:
                continue
            var = (S[:, keep] ** 2).sum(axis=0) / dof
            rep.case(("full-rank-pairing", method, X.tobytes()), kind="pairing/full-rank")
            dev = float(np.max(np.abs(var - lam[keep])))
            if dev > 1e-6 * float(np.max(lam)):
                rep.violation(f"UFPCA({method}, all components) on rough full-rank curves: the variance of score column k is not the "
                              f"eigenvalue reported in place k (max deviation {dev:.3g}; eigenvalues {lam[keep][:5].tolist()}…, score "
                              f"variances {var[:5].tolist()}…)", {"method": method, "x": C.hexf(x), "X": C.hexf(X)})


def run(rep, props, replay=None):
    quick = C.tier() == "quick"
    rng = np.random.default_rng([C.seed(), 3])
    full_rank_pairing(rep)

    def _scores(d, meth, how):
        f = fit(d, meth, False, 2)
        with warnings.catch_warnings():
            warnings.simplefilter("ignore")
            s0 = np.asarray(f.transform(None, method=how), float)
            s1 = np.asarray(f.transform(d, method="NumInt"), float)     # (InnPro is defined for the stored curves only)
            rec = np.asarray(f.inverse_transform(s0).values, float)
        return np.concatenate([np.abs(s0).ravel(), np.abs(s1).ravel(), rec.ravel(), np.asarray(f.mean.values, float).ravel()])
    # counts / digitised curves: scores (of the stored and of the given curves), reconstruction and mean on integer-dtype
    # arrays are those of the same numbers as floats
    fd.dtype_monitor(rep, np.random.default_rng([C.seed(), 3, 23]), {
        "UFPCA(covariance) |NumInt scores| (stored, given) / reconstruction / mean": lambda d: _scores(d, "covariance", "NumInt"),
        "UFPCA(inner-product) |InnPro scores| (stored, given) / reconstruction / mean": lambda d: _scores(d, "inner-product", "InnPro"),
    }, "UFPCA scores")
    runq = C.CoqRun("C03", IMPORTS, shard=10)
    todo = []
    kinds = ["uniform", "uniform-dyadic", "nonuniform", "doy", "shifted"]
    n_cases = 6 if quick else 60
    for i in range(n_cases):
        kind = kinds[i % len(kinds)]
        n = int(rng.integers(4, 10 if quick else 30))
        m = int(rng.integers(5, 13 if quick else 40))
        r = int(rng.integers(2, min(4, n - 1, m - 1) + 1))
        x = fd.grid(rng, m, kind)
        u = (x - x[0]) / (x[-1] - x[0])
        basis = np.array([np.sin((j + 1) * np.pi * u) + 0.3 * (j % 2) * u for j in range(r)])
        coef = np.round(rng.normal(size=(n, r)) * np.linspace(3, 1, r) * 16) / 16
        X = float(rng.choice([1.0, 5.0, 0.2])) * (coef @ basis) + float(rng.choice([0.0, 4.0])) * (1 + u)
        d = fd.dense(x, X)
        if i % 2 == 1:
            # multi-step history: the object has been analysed before and its curves were then replaced
            # through the public setter; every relation must hold for the CURRENT curves
            from FDApy.representation.values import DenseValues
            Xold = X[::-1] * 0.5 + 3.0
            d = fd.dense(x, Xold)
            d.mean(); d.center(); fit(d, "covariance", False, 1)
            d.values = DenseValues(X.copy())
        qx = C.qlist(x)
        for method in ("covariance", "inner-product"):
            for normalize in (False, True):
                for ncomp in sorted({1, 2, r}):
                    if ncomp > r:
                        continue
                    try:
                        f = fit(d, method, normalize, ncomp)
                    except Exception as e:  # noqa: BLE001
                        rep.violation(f"UFPCA.fit raised {type(e).__name__}: {e}", {"X": C.hexf(X), "x": C.hexf(x),
                                      "method": method, "normalize": normalize, "n_components": ncomp})
                        continue
                    lam = np.asarray(f.eigenvalues, float)
                    Phi = np.asarray(f.eigenfunctions.values, float)
                    mu = np.asarray(f.mean.values, float)[0]
                    wgt = float(f.weights)
                    s = float(np.sqrt(wgt))
                    if not (np.all(np.isfinite(Phi)) and np.all(lam > 0)):
                        rep.dist["skipped-nonpositive-eigenvalue"] = rep.dist.get("skipped-nonpositive-eigenvalue", 0) + 1
                        continue
                    sc = max(1.0, float(np.max(np.abs(X)))) * max(1.0, float(np.max(np.abs(Phi)))) * max(1.0, np.ptp(x)) / min(1.0, s)
                    key = (kind, X.tobytes(), method, normalize, ncomp)
                    opts = {"grid": kind, "method": method, "normalize": normalize, "n_components": ncomp, "n": n, "m": m, "rank": r}
                    with warnings.catch_warnings():
                        warnings.simplefilter("ignore")
                        S0 = np.asarray(f.transform(None, method="NumInt"), float)
                        S1 = np.asarray(f.transform(d, method="NumInt", method_smoothing=None), float)
                    model = f"(transform_model {qx} {C.qlist(mu)} {C.qlit(s)} {C.qmat(X)} {C.qmat(Phi)})"
                    t = runq.add(f"qclose {C.qlit(1e-12 * max(1.0, wgt))} ({C.qlit(s)} * {C.qlit(s)}) {C.qlit(wgt)} && "
                                 f"mclose {C.qlit(1e-8 * sc)} {model} {C.qmat(S0)}")
                    todo.append((t, None, "stored-data NumInt scores = model scores of the prepared training curves", key, opts))
                    t = runq.add(f"mclose {C.qlit(1e-8 * sc)} {model} {C.qmat(S1)}")
                    td = runq.add(f"mclose {C.qlit(1e-8 * sc)} (transform_model_uncentred {qx} {C.qlit(s)} {C.qmat(X)} {C.qmat(Phi)}) {C.qmat(S1)}")
                    todo.append((t, td if normalize else None,
                                 "transform(X_train) = scores of the stored training data", key, opts))
                    if method == "covariance":
                        t = runq.add(f"score_cov_ok {C.qlit(1e-7 * sc * sc)} {n - 1} {C.qlist(lam)} {C.qmat(S0)}")
                        todo.append((t, None, "NumInt scores uncorrelated with variance lambda (covariance method)", key, opts))
                        if np.max(np.abs(S0.sum(axis=0))) > 1e-8 * sc * n:
                            rep.violation("training scores do not sum to zero", {**opts, "X": C.hexf(X), "x": C.hexf(x)})
                    else:
                        with warnings.catch_warnings():
                            warnings.simplefilter("ignore")
                            ev_before = np.array(f._eigenvectors, float, copy=True) if getattr(f, "_eigenvectors", None) is not None else None
                            Si = np.asarray(f.transform(None, method="InnPro"), float)
                            Si2 = np.asarray(f.transform(None, method="InnPro"), float)
                            Si3 = np.asarray(f.transform(None, method="InnPro"), float)
                        if not (np.array_equal(Si2, Si) and np.array_equal(Si3, Si)):
                            rep.violation(f"InnPro scores of the stored training data change from call to call (max "
                                          f"{np.max(np.abs(Si3 - Si)):.3g}): scoring consumes / rescales the fitted state",
                                          {**opts, "X": C.hexf(X), "x": C.hexf(x)})
                        elif ev_before is not None and not np.array_equal(np.asarray(f._eigenvectors, float), ev_before):
                            rep.violation("transform(method='InnPro') changes the fitted Gram eigenvectors", {**opts, "X": C.hexf(X), "x": C.hexf(x)})
                        t = runq.add(f"score_cov_ok {C.qlit(1e-7 * sc * sc)} {n} {C.qlist(lam)} {C.qmat(Si)}")
                        todo.append((t, None, "Gram-based scores uncorrelated with variance lambda (inner-product method)", key, opts))
                    # curves recorded in small units (the same curves times 2^-20): every power of two scales the intermediates
                    # exactly, so eigenvalues scale by 2^-40, natural scores by 2^-20, eigenfunctions not at all
                    if not normalize and ncomp == r:
                        c2 = 2.0 ** -20
                        try:
                            with warnings.catch_warnings():
                                warnings.simplefilter("ignore")
                                f2 = fit(fd.dense(x, X * c2), method, False, ncomp)
                                lam2 = np.asarray(f2.eigenvalues, float)
                                Phi2 = np.asarray(f2.eigenfunctions.values, float)
                                S2 = np.asarray(f2.transform(None, method="NumInt" if method == "covariance" else "InnPro"), float)
                            Sref = S0 if method == "covariance" else Si
                            rep.case(("small-units", X.tobytes(), method, ncomp), kind="scale/small-units")
                            bad2 = []
                            if lam2.shape != lam.shape or np.max(np.abs(lam2 - lam * c2 * c2)) > 1e-7 * c2 * c2 * float(np.max(lam)):
                                bad2.append(f"eigenvalues {lam2.tolist()} are not 2^-40 times {lam.tolist()}")
                            elif not np.all(np.isfinite(Phi2)) or np.max(np.abs(np.abs(Phi2) - np.abs(Phi))) > 1e-6 * max(1.0, float(np.max(np.abs(Phi)))):
                                bad2.append("eigenfunctions change with the unit of the curves")
                            elif S2.shape != Sref.shape or not np.all(np.isfinite(S2)) or \
                                    np.max(np.abs(np.abs(S2) - np.abs(Sref) * c2)) > 1e-6 * c2 * max(1e-300, float(np.max(np.abs(Sref)))):
                                bad2.append("natural scores are not 2^-20 times the scores of the original curves (their variances are no "
                                            "longer the reported eigenvalues)")
                            if bad2:
                                rep.violation(f"UFPCA({method}, n_components={ncomp}) on the same curves in small units (x 2^-20): " + "; ".join(bad2),
                                              {**opts, "X": C.hexf(X), "x": C.hexf(x), "factor": c2})
                        except Exception as e:  # noqa: BLE001
                            rep.violation(f"UFPCA({method}) on curves in small units (x 2^-20) raised {type(e).__name__}: {e}"[:300],
                                          {**opts, "X": C.hexf(X), "x": C.hexf(x), "factor": c2})
                    # inverse_transform: affine model on training scores and on random scores
                    Srand = np.round(rng.normal(size=(3, len(lam))) * 8) / 8
                    for Sx, nm in ((S0, "training"), (Srand, "random")):
                        R = np.asarray(f.inverse_transform(Sx).values, float)
                        t = runq.add(f"mclose {C.qlit(1e-8 * sc * max(1.0, s))} "
                                     f"(inverse_model {m}%nat {C.qlist(mu)} {C.qlit(s)} {C.qmat(Phi)} {C.qmat(Sx)}) {C.qmat(R)}")
                        todo.append((t, None, f"inverse_transform is mean + s * scores . eigenfunctions ({nm} scores)", key, opts))
                    # round trip when the retained components span the centred data
                    Xt = (X - mu) / s
                    resid = Xt - np.linalg.lstsq(Phi.T, Xt.T, rcond=None)[0].T @ Phi
                    spans = float(np.max(np.abs(resid))) <= 1e-9 * max(1.0, float(np.max(np.abs(Xt))))
                    if ncomp == r and not spans:
                        # the retained components are not the leading ones (finding F1, decided by C01): the
                        # premise "the retained components span the centred curves" does not hold
                        rep.dist["roundtrip-premise-false(F1)"] = rep.dist.get("roundtrip-premise-false(F1)", 0) + 1
                    # reconstructions, eigenfunctions, mean and stored training curves live on the sampling grid
                    with warnings.catch_warnings():
                        warnings.simplefilter("ignore")
                        rec_any = f.inverse_transform(S0 if method == "covariance" else Si)
                    for lab, obj in (("inverse_transform", rec_any), ("eigenfunctions", f.eigenfunctions), ("mean", f.mean),
                                     ("stored training data", f._training_data)):
                        ga = np.asarray(obj.argvals["input_dim_0"], float)
                        if ga.shape != x.shape or not np.array_equal(ga, x):
                            rep.violation(f"{lab} of UFPCA({method}, normalize={normalize}) is on other sampling points "
                                          f"([{ga[0]:.4g} .. {ga[-1]:.4g}] instead of [{x[0]:.4g} .. {x[-1]:.4g}])",
                                          {**opts, "X": C.hexf(X), "x": C.hexf(x)})
                            break
                    if ncomp == r and spans:
                        Snat = S0 if method == "covariance" else Si
                        R = np.asarray(f.inverse_transform(Snat).values, float)
                        err = float(np.max(np.abs(R - X)))
                        if err > 1e-6 * max(1.0, float(np.max(np.abs(X)))):
                            rep.violation(f"round trip inverse_transform(transform) misses the training curves by {err:.3g} "
                                          f"although the {r} retained components span the centred data",
                                          {**opts, "X": C.hexf(X), "x": C.hexf(x)})
                    # PACE: well-formedness only
                    try:
                        with warnings.catch_warnings():
                            warnings.simplefilter("ignore")
                            P = np.asarray(f.transform(None, method="PACE"), float)
                        if P.shape != S0.shape or not np.all(np.isfinite(P)):
                            rep.violation("PACE scores are not finite / have the wrong shape", {**opts, "X": C.hexf(X), "x": C.hexf(x)})
                        else:
                            # PACE is a score method too: stored == explicit (normalize=False: F2 is about the explicit path
                            # under normalisation), and scoring twice gives the same scores (no state is consumed)
                            with warnings.catch_warnings():
                                warnings.simplefilter("ignore")
                                cov_before = np.array(f.covariance.values, float, copy=True)
                                P2 = np.asarray(f.transform(None, method="PACE"), float)
                                Pe = np.asarray(f.transform(d, method="PACE", method_smoothing=None), float) if not normalize else None
                                P3 = np.asarray(f.transform(None, method="PACE"), float)
                            badp = []
                            sp = max(1.0, float(np.max(np.abs(P))))
                            if not (np.array_equal(P2, P) and np.array_equal(P3, P)):
                                badp.append(f"PACE scores of the stored data change from call to call (max {np.max(np.abs(P3 - P)):.3g})")
                            if Pe is not None and np.max(np.abs(Pe - P)) > 1e-8 * sp:
                                badp.append(f"PACE scores of the training curves passed explicitly differ from those of the stored "
                                            f"data (max {np.max(np.abs(Pe - P)):.3g})")
                            if not np.array_equal(np.asarray(f.covariance.values, float), cov_before):
                                badp.append("transform(method='PACE') changes the fitted covariance")
                            rep.case((X.tobytes(), method, normalize, ncomp, "pace"), kind=f"PACE/{method}/normalize={normalize}")
                            if badp:
                                rep.violation("PACE: " + "; ".join(badp), {**opts, "X": C.hexf(X), "x": C.hexf(x)})
                    except Exception as e:  # noqa: BLE001
                        rep.notes.append(f"PACE raised {type(e).__name__}: {e}"[:160])
        if i % 3 == 0:
            two_d(rep, rng, runq, todo, square=(i % 6 == 0))
        if i % 3 == 1:
            mfpca_part(rep, rng, runq, todo, i)
    res = runq.run()
    seen = set()
    for t, td, what, key, opts in todo:
        if (key, what) not in seen:
            seen.add((key, what))
            rep.case((key, what), nontrivial=opts["n_components"] >= 2, kind=f"{opts['method']}/normalize={opts['normalize']}",
                     sample={**opts, "claim": what})
        if res[t]:
            continue
        rep.disagreements_checked += 1
        if isinstance(td, tuple):
            if res[td[1]]:
                rep.known_finding(td[0], F18_WHAT, opts)
                continue
        elif td is not None and res[td]:
            rep.known_finding(F2, F2_WHAT, opts)
            continue
        rep.violation(what + " — fails", {**opts, "claim": what, "X": C.hexf(np.frombuffer(key[1]))})


def mfpca_part(rep, rng, runq, todo, i):
    """MFPCA: numerical-integration scores are the SUM over components of the univariate integrals; scoring the
    training data passed explicitly must equal scoring the stored training data (finding F2 with normalize=True)."""
    from FDApy.preprocessing.dim_reduction.mfpca import MFPCA
    n = 7
    x1, x2 = np.linspace(0, 1, 9), fd.grid(rng, 8, "nonuniform")
    lat = np.round(rng.normal(size=(n, 2)) * 8) / 8
    X1 = lat @ np.array([np.sin(np.pi * x1), np.cos(np.pi * x1)]) + 2.0
    u2 = (x2 - x2[0]) / (x2[-1] - x2[0])
    X2 = 3.0 * (lat @ np.array([u2, u2 ** 2])) - 1.0
    data = fd.multivariate([fd.dense(x1, X1), fd.dense(x2, X2)])
    for normalize in (False, True):
        try:
            with warnings.catch_warnings():
                warnings.simplefilter("ignore")
                f = MFPCA(n_components=2, method="inner-product", normalize=normalize)
                f.fit(data, method_smoothing=None)
                S0 = np.asarray(f.transform(None, method="NumInt"), float)
                S1 = np.asarray(f.transform(data, method="NumInt", method_smoothing=None), float)
                E = [np.asarray(c.values, float) for c in f.eigenfunctions.to_grid().data]
        except Exception as e:  # noqa: BLE001
            rep.notes.append(f"MFPCA part raised {type(e).__name__}: {e}"[:200])
            continue
        if not (np.all(np.isfinite(S0)) and all(np.all(np.isfinite(e_)) for e_ in E)):
            continue
        wts = np.asarray(f.weights, float) if normalize else np.ones(2)
        mus = [np.asarray(c.values, float)[0] for c in f.mean.data]
        ss = [float(np.sqrt(w_)) for w_ in wts]
        sc = max(1.0, float(np.max(np.abs(S0))), float(np.max(np.abs(S1))))
        key = ("mfpca", X1.tobytes(), normalize)
        opts = {"grid": "multivariate", "method": "inner-product", "normalize": normalize, "n_components": 2, "n": n, "m": 17, "rank": 2}
        def term(fn, extra):
            parts = [f"({fn} {C.qlist(x)} {extra(p)} {C.qmat(X)} {C.qmat(E[p])})" for p, (x, X) in enumerate(((x1, X1), (x2, X2)))]
            return f"(madd opsQ {parts[0]} {parts[1]})"
        correct = term("transform_model", lambda p: f"{C.qlist(mus[p])} {C.qlit(ss[p])}")
        defect = term("transform_model_uncentred", lambda p: f"{C.qlit(ss[p])}")
        # defect model F18: fit centres with the PS-SMOOTHED mean (the very call the code makes), not with the mean it reports
        with warnings.catch_warnings():
            warnings.simplefilter("ignore")
            mus_ps = [np.asarray(c.smooth(points=c.argvals, method="PS").values, float)[0] for c in f.mean.data]
        stored_defect = term("transform_model", lambda p: f"{C.qlist(mus_ps[p])} {C.qlit(ss[p])}")
        t = runq.add(f"mclose {C.qlit(1e-8 * sc)} {correct} {C.qmat(S0)}")
        td18 = runq.add(f"mclose {C.qlit(1e-8 * sc)} {stored_defect} {C.qmat(S0)}")
        todo.append((t, ("F18", td18), "MFPCA stored-data NumInt scores = sum over components of the model scores of the "
                     "training curves centred with the reported mean", key, opts))
        t = runq.add(f"mclose {C.qlit(1e-8 * sc)} {correct} {C.qmat(S1)}")
        td = runq.add(f"mclose {C.qlit(1e-8 * sc)} {defect} {C.qmat(S1)}")
        todo.append((t, td if normalize else None, "MFPCA transform(X_train) = scores of the stored training data", key, opts))


def two_d(rep, rng, runq, todo, square=False):
    n, m1, m2, r = 6, (5 if square else 4), 5, 2          # square: as many points in both dimensions, different grids
    x1, x2 = np.linspace(0, 1, m1), fd.grid(rng, m2, "nonuniform")
    b = np.array([np.outer(np.sin(np.pi * x1), np.cos(x2)), np.outer(x1, x2 ** 2)])
    coef = np.round(rng.normal(size=(n, r)) * 8) / 8
    X = np.einsum("ik,kab->iab", coef, b)
    d = fd.dense([x1, x2], X)
    for normalize in (False, True):
        try:
            f = fit(d, "inner-product", normalize, r)
        except Exception as e:  # noqa: BLE001
            rep.notes.append(f"2-D fit raised {type(e).__name__}: {e}"[:160])
            continue
        lam = np.asarray(f.eigenvalues, float)
        Phi = np.asarray(f.eigenfunctions.values, float).reshape(len(lam), -1)
        if not (np.all(np.isfinite(Phi)) and np.all(lam > 0)):
            continue
        mu = np.asarray(f.mean.values, float).reshape(-1)
        wgt = float(f.weights); s = float(np.sqrt(wgt))
        with warnings.catch_warnings():
            warnings.simplefilter("ignore")
            Si = np.asarray(f.transform(None, method="InnPro"), float)
        sc = max(1.0, float(np.max(np.abs(X)))) * max(1.0, float(np.max(np.abs(Phi)))) / min(1.0, s)
        key = ("2d", X.tobytes(), "inner-product", normalize, r)
        opts = {"grid": "2-D", "method": "inner-product", "normalize": normalize, "n_components": r, "n": n, "m": m1 * m2, "rank": r}
        t = runq.add(f"score_cov_ok {C.qlit(1e-7 * sc * sc)} {n} {C.qlist(lam)} {C.qmat(Si)}")
        todo.append((t, None, "Gram-based scores uncorrelated with variance lambda (2-D)", key, opts))
        # scores by numerical integration: the 2-D trapezoid integral of (centred, rescaled image) x eigenfunction,
        # each dimension integrated over ITS OWN grid
        with warnings.catch_warnings():
            warnings.simplefilter("ignore")
            Sn = np.asarray(f.transform(None, method="NumInt"), float)
        Xc2 = (X - np.asarray(f.mean.values, float)[0]) / s
        Ph2 = np.asarray(f.eigenfunctions.values, float)
        ref = np.array([[np.trapz(np.trapz(Xc2[i] * Ph2[k], x2, axis=1), x1) for k in range(len(lam))] for i in range(n)])
        if Sn.shape != ref.shape or np.max(np.abs(Sn - ref)) > 1e-8 * sc:
            rep.violation(f"2-D NumInt scores differ from the integral of image x eigenfunction over the two grids by "
                          f"{np.max(np.abs(Sn - ref)) if Sn.shape == ref.shape else 'shape'}",
                          {"grid": "2-D", "normalize": normalize, "x1": C.hexf(x1), "x2": C.hexf(x2), "X": C.hexf(X)})
        R = np.asarray(f.inverse_transform(Si).values, float).reshape(n, -1)
        t = runq.add(f"mclose {C.qlit(1e-8 * sc * max(1.0, s))} "
                     f"(inverse_model {m1 * m2}%nat {C.qlist(mu)} {C.qlit(s)} {C.qmat(Phi)} {C.qmat(Si)}) {C.qmat(R)}")
        todo.append((t, None, "inverse_transform is mean + s * scores . eigenfunctions (2-D)", key, opts))
        err = float(np.max(np.abs(R - X.reshape(n, -1))))
        Xt = (X.reshape(n, -1) - mu) / s
        resid = Xt - np.linalg.lstsq(Phi.T, Xt.T, rcond=None)[0].T @ Phi
        spans = float(np.max(np.abs(resid))) <= 1e-9 * max(1.0, float(np.max(np.abs(Xt))))
        if not spans:
            rep.dist["roundtrip-premise-false(F1)"] = rep.dist.get("roundtrip-premise-false(F1)", 0) + 1
        if spans and err > 1e-6 * max(1.0, float(np.max(np.abs(X)))):
            rep.violation(f"2-D round trip misses the training images by {err:.3g}", {**opts, "X": C.hexf(X)})
