"""C11 — containers never reach an inconsistent state.

Random and enumerated operation HISTORIES are run on real FDApy objects
(DenseFunctionalData, IrregularFunctionalData, MultivariateFunctionalData) and on
the Coq model (Model/Container.v, [step]); after EVERY step the outcome class
(ok / TypeError / ValueError / LookupError) and all observers are compared.
A disagreeing history is shrunk by delta debugging to a minimal operation list,
which becomes the replay.
"""
from __future__ import annotations

import itertools
import json

import numpy as np

from harness import common as C

IMPORTS = "From FDAV Require Import Model.Container Tie.C11."

RULE = ("operation histories over {construct, set argvals / values / argvals_stand, index by int / slice / array, concatenate, "
        "append, extend, insert, remove, pop, clear, reverse} on dense, irregular and multivariate objects; about 75 % of the "
        "operations of a 'valid' history are chosen to be acceptable in the current state, a separate malformed stream offers "
        "wrong type / n_points / n_obs / dimension / labels / positions; after EVERY step the outcome class and the observers "
        "(kind, n_obs, n_functional, n_dimension, n_points of argvals, of values and of argvals_stand, identity tokens of the "
        "components) are compared with the model step (Model/Container.v) evaluated by vm_compute; a failed operation must "
        "additionally leave the very same attribute objects in place. Non-trivial = a history with at least one accepted and "
        "one state-changing step; distinct by the operation list.")
ASSUME = ["abstract state = shapes, labels and identity tokens only (no numbers); float contents are irrelevant to C11",
          "remove() is only issued when every comparison the list scan performs is between pool objects (pairwise unequal by "
          "construction) that are dense and of equal shape, or hits identity first; value equality and its totality are property C12 (F8)",
          "components of a multivariate object are not mutated while they are members (the class has no back-pointer; outside the "
          "operation alphabet of the property)",
          "empty irregular selections, cross-kind argvals_stand, item assignment inside an Argvals/Values dictionary are not generated"]

# --------------------------------------------------------------------------
# building real arguments from JSON-able specifications
# --------------------------------------------------------------------------
_KEEP = []          # strong references (identity tokens must stay unique)
_AXES = {}          # id(DenseArgvals) -> axes descriptor [[token, n], ...]


def _grid(tok, n):
    if tok >= 100:
        # same number of points and same end points as the grid of token tok - 100, other interior points
        g = _grid(tok - 100, n)
        if n >= 3:
            g[1:-1] += 1.0 / 32
        return g
    return float(tok) + np.arange(n, dtype=float) / 8.0


def mk_argvals(spec):
    """Build the object described by an aspec (may raise TypeError: typed dictionaries)."""
    from FDApy.representation.argvals import DenseArgvals, IrregularArgvals
    t = spec["t"]
    if t == "dense":
        av = DenseArgvals({f"input_dim_{j}": _grid(tok, n) for j, (tok, n) in enumerate(spec["axes"])})
        _KEEP.append(av)
        _AXES[id(av)] = [list(a) for a in spec["axes"]]
        return av
    if t == "irr":
        return IrregularArgvals({int(lab): DenseArgvals({f"input_dim_{j}": _grid(1, n) for j, n in enumerate(pts)})
                                 for lab, pts in spec["pts"]})
    how = spec["how"]
    if how == "list-value":
        return DenseArgvals({"input_dim_0": [0.0, 0.5, 1.0]})
    if how == "int-key":
        return DenseArgvals({0: np.arange(3.0)})
    if how == "irr-array-value":
        return IrregularArgvals({0: np.arange(3.0)})
    if how == "irr-str-key":
        return IrregularArgvals({"a": DenseArgvals({"input_dim_0": np.arange(3.0)})})
    if how == "irr-nested":      # an IrregularArgvals as item of an IrregularArgvals (items must be DenseArgvals)
        return IrregularArgvals({k: IrregularArgvals({0: DenseArgvals({"input_dim_0": _grid(1, n)})})
                                 for k, n in enumerate((3, 4, 2))})
    if how == "dense-nested":    # a DenseArgvals as item of a DenseArgvals (items must be arrays)
        return DenseArgvals({"input_dim_0": DenseArgvals({"input_dim_0": _grid(1, 5)})})
    if how == "dict":
        return {"input_dim_0": np.arange(3.0)}
    if how == "ndarray":
        return np.arange(3.0)
    return None


def mk_values(spec):
    from FDApy.representation.values import DenseValues, IrregularValues
    t = spec["t"]
    if t == "dense":
        shape = tuple(spec["shape"])
        return DenseValues(np.arange(int(np.prod(shape)), dtype=float).reshape(shape) + float(spec.get("off", 0.0)))
    if t == "irr":
        return IrregularValues({int(lab): np.arange(int(np.prod(sh)), dtype=float).reshape(tuple(sh)) + float(spec.get("off", 0.0))
                                for lab, sh in spec["pts"]})
    how = spec["how"]
    if how == "ndarray":
        return np.zeros((3, 5))
    if how == "list":
        return [[0.0, 1.0]]
    if how == "irr-list-value":
        return IrregularValues({0: [1.0, 2.0]})
    if how == "irr-str-key":
        return IrregularValues({"a": np.arange(3.0)})
    if how == "irr-nested":
        return IrregularValues({k: IrregularValues({0: np.arange(float(n))}) for k, n in enumerate((3, 4, 2))})
    if how == "dict":
        return {0: np.arange(3.0)}
    return None


WRONG_A = ["list-value", "int-key", "irr-array-value", "irr-str-key", "dict", "ndarray", "none", "irr-nested", "dense-nested"]
WRONG_V = ["ndarray", "list", "irr-list-value", "irr-str-key", "dict", "none", "irr-nested"]

# the pool of components / concatenation partners: token -> specification
POOL = {
    1: ("dense", [[1, 5]], [3, 5]),
    2: ("dense", [[1, 5]], [3, 5]),
    3: ("dense", [[2, 5]], [3, 5]),
    4: ("dense", [[3, 4]], [3, 4]),
    5: ("dense", [[1, 5], [4, 3]], [3, 5, 3]),
    6: ("irr", [[0, [3]], [1, [4]], [2, [2]]], None),
    7: ("irr", [[0, [5]], [1, [2]], [2, [3]]], None),
    8: ("dense", [[1, 5]], [2, 5]),
    9: ("irr", [[0, [4]], [1, [3]]], None),
    10: ("dense", [[1, 5], [4, 3]], [2, 5, 3]),
    11: ("dense", [[1, 5]], [1, 5]),
    12: ("dense", [[1, 5]], [4, 5]),
    13: ("irr", [[0, [3, 2]], [1, [2, 2]], [2, [4, 3]]], None),
    14: ("dense", [[3, 4]], [2, 4]),
}
_POOL_OBJ = {}
_LAST = {}
_TOK_OF = {}


def pool_obj(tok):
    from FDApy.representation.functional_data import DenseFunctionalData, IrregularFunctionalData
    if tok not in _POOL_OBJ:
        kind, a, s = POOL[tok]
        if kind == "dense":
            o = DenseFunctionalData(mk_argvals({"t": "dense", "axes": a}), mk_values({"t": "dense", "shape": s, "off": 100.0 * tok}))
        else:
            o = IrregularFunctionalData(mk_argvals({"t": "irr", "pts": a}), mk_values({"t": "irr", "pts": a, "off": 100.0 * tok}))
        _POOL_OBJ[tok] = o
        _TOK_OF[id(o)] = tok
    return _POOL_OBJ[tok]


def pool_nobs(tok):
    kind, a, s = POOL[tok]
    return s[0] if kind == "dense" else len(a)


# --------------------------------------------------------------------------
# Coq literals (the file header opens nat_scope; Z literals are annotated)
# --------------------------------------------------------------------------
def nl(xs):
    return "[" + "; ".join(str(int(x)) for x in xs) + "]"


def z(i):
    return f"({int(i)})%Z"


def oz(i):
    return "None" if i is None else f"(Some {z(i)})"


def axes_lit(axes):
    return "[" + "; ".join(f"({int(t)}, {int(n)})" for t, n in axes) + "]"


def lshape_lit(pts):
    return "[" + "; ".join(f"({int(lab)}, {nl(sh)})" for lab, sh in pts) + "]"


def aspec_lit(s):
    if s["t"] == "dense":
        return f"(ADense {axes_lit(s['axes'])})"
    if s["t"] == "irr":
        return f"(AIrr {lshape_lit(s['pts'])})"
    return "AWrong"


def vspec_lit(s):
    if s["t"] == "dense":
        return f"(VDense ({int(s['shape'][0])}, {nl(s['shape'][1:])}))"
    if s["t"] == "irr":
        return f"(VIrr {lshape_lit(s['pts'])})"
    return "VWrong"


def gobj_lit(tok):
    kind, a, s = POOL[tok]
    if kind == "dense":
        return f"(GD (mkd {axes_lit(a)} ({s[0]}, {nl(s[1:])}) {nl([n for _, n in a])}))"
    p = lshape_lit(a)
    return f"(GI (mki {p} {p} {p}))"


def obj_lit(tok):
    kind, a, s = POOL[tok]
    g = gobj_lit(tok)
    return "(OD " + g[4:] if kind == "dense" else "(OI " + g[4:]


def comp_lit(tok):
    return f"({tok}, {gobj_lit(tok)})"


def index_lit(ix):
    if ix["t"] == "int":
        return f"(IxInt {z(ix['i'])})"
    if ix["t"] == "slice":
        return f"(IxSlice {oz(ix['a'])} {oz(ix['b'])} {oz(ix['c'])})"
    return "(IxArr [" + "; ".join(z(i) for i in ix["l"]) + "])"


def op_lit(o):
    k = o["op"]
    if k == "construct":
        if o["kind"] == "dense":
            return f"(Construct (CDense {aspec_lit(o['a'])} {vspec_lit(o['v'])}))"
        if o["kind"] == "irr":
            return f"(Construct (CIrr {aspec_lit(o['a'])} {vspec_lit(o['v'])}))"
        return "(Construct (CMv [" + "; ".join(comp_lit(t) for t in o["l"]) + "]))"
    if k == "set_argvals":
        return f"(SetArgvals {aspec_lit(o['a'])})"
    if k == "set_values":
        return f"(SetValues {vspec_lit(o['v'])})"
    if k == "set_stand":
        return f"(SetStand {aspec_lit(o['a'])})"
    if k == "index":
        return f"(Index {index_lit(o['ix'])})"
    if k == "concat":
        if o.get("mv"):
            return "(Concat [" + "; ".join("OM [" + "; ".join(comp_lit(t) for t in l) + "]" for l in o["others"]) + "])"
        return "(Concat [" + "; ".join(obj_lit(t) for t in o["others"]) + "])"
    if k == "append":
        return f"(Append {comp_lit(o['c'])})"
    if k == "extend":
        return "(Extend [" + "; ".join(comp_lit(t) for t in o["l"]) + "])"
    if k == "insert":
        return f"(Insert {z(o['i'])} {comp_lit(o['c'])})"
    if k == "remove":
        return f"(Remove {int(o['c'])})"
    if k == "pop":
        return f"(Pop {z(o['i'])})"
    if k == "clear":
        return "Clear"
    if k == "reverse":
        return "Reverse"
    raise ValueError(k)


def nll(x):
    return "[" + "; ".join(nl(r) for r in x) + "]"


def nlll(x):
    return "[" + "; ".join(nll(r) for r in x) + "]"


OUT_LIT = {"ok": "Ok", "TypeError": "TypeErr", "ValueError": "ValueErr", "LookupError": "LookupErr", "other": "NotApplicable"}


def obs_lit(ob):
    if ob is None:       # an observer raised: can never match
        return "(9, 0, 0, [], [], [], [], [])"
    return (f"({ob['kind']}, {ob['n_obs']}, {ob['n_functional']}, {nl(ob['n_dimension'])}, {nlll(ob['n_points'])}, "
            f"{nlll(ob['values'])}, {nlll(ob['stand'])}, {nl(ob['tokens'])})")


def trace_lit(tr):
    return "[" + "; ".join(f"({OUT_LIT[o]}, {obs_lit(ob)})" for o, ob in tr) + "]"


# --------------------------------------------------------------------------
# running a history on the implementation
# --------------------------------------------------------------------------
def _flat_npoints(np_):
    if isinstance(np_, dict):
        return [[int(lab)] + [int(v) for v in t] for lab, t in np_.items()]
    return [[int(v) for v in np_]]


def _g_obs(g):
    from FDApy.representation.functional_data import DenseFunctionalData
    if isinstance(g, DenseFunctionalData):
        return (_flat_npoints(g.argvals.n_points), [[int(v) for v in g.values.shape[1:]]],
                _flat_npoints(g.argvals_stand.n_points))
    return (_flat_npoints(g.argvals.n_points), _flat_npoints(g.values.n_points), _flat_npoints(g.argvals_stand.n_points))


def observe(cur):
    from FDApy.representation.functional_data import DenseFunctionalData, IrregularFunctionalData
    try:
        if isinstance(cur, (DenseFunctionalData, IrregularFunctionalData)):
            p, v, s = _g_obs(cur)
            return {"kind": 0 if isinstance(cur, DenseFunctionalData) else 1, "n_obs": int(cur.n_obs), "n_functional": 0,
                    "n_dimension": [int(cur.n_dimension)], "n_points": [_flat_npoints(cur.n_points)], "values": [v], "stand": [s],
                    "tokens": [],
                    "_consistent": _flat_npoints(cur.n_points) == p}
        obs = [_g_obs(g) for g in cur.data]
        return {"kind": 2, "n_obs": int(cur.n_obs), "n_functional": int(cur.n_functional),
                "n_dimension": [int(d) for d in cur.n_dimension],
                "n_points": [_flat_npoints(x) for x in cur.n_points], "values": [o[1] for o in obs], "stand": [o[2] for o in obs],
                "tokens": [_TOK_OF.get(id(g), 0) for g in cur.data], "_consistent": [_flat_npoints(x) for x in cur.n_points] == [o[0] for o in obs]}
    except Exception as e:  # noqa: BLE001
        return None


def classify(e):
    if isinstance(e, TypeError):
        return "TypeError"
    if isinstance(e, ValueError):
        return "ValueError"
    if isinstance(e, LookupError):
        return "LookupError"
    return "other"


def py_index(ix):
    if ix["t"] == "int":
        return int(ix["i"])
    if ix["t"] == "slice":
        return slice(ix["a"], ix["b"], ix["c"])
    return np.array(ix["l"], dtype=int)


def _identity(cur):
    from FDApy.representation.functional_data import MultivariateFunctionalData
    if isinstance(cur, MultivariateFunctionalData):
        return ("mv", id(cur.data), tuple(id(g) for g in cur.data))
    return ("g", id(cur._argvals), id(cur._values), id(cur._argvals_stand))


def apply_op(cur, o):
    """Returns (new current object, outcome class).  `cur` None only before the first step (an empty multivariate object)."""
    from FDApy.representation.functional_data import (DenseFunctionalData, IrregularFunctionalData,
                                                      MultivariateFunctionalData)
    k = o["op"]
    try:
        if k == "construct":
            if o["kind"] == "dense":
                return DenseFunctionalData(mk_argvals(o["a"]), mk_values(o["v"])), "ok"
            if o["kind"] == "irr":
                return IrregularFunctionalData(mk_argvals(o["a"]), mk_values(o["v"])), "ok"
            return MultivariateFunctionalData([pool_obj(t) for t in o["l"]]), "ok"
        if k == "set_argvals":
            cur.argvals = mk_argvals(o["a"])
        elif k == "set_values":
            cur.values = mk_values(o["v"])
        elif k == "set_stand":
            cur.argvals_stand = mk_argvals(o["a"])
        elif k == "index":
            return cur[py_index(o["ix"])], "ok"
        elif k == "concat":
            if o.get("mv"):
                others = [MultivariateFunctionalData([pool_obj(t) for t in l]) for l in o["others"]]
            else:
                others = [pool_obj(t) for t in o["others"]]
            return type(cur).concatenate(cur, *others), "ok"
        elif k == "append":
            cur.append(pool_obj(o["c"]))
        elif k == "extend":
            objs = [pool_obj(t) for t in o["l"]]
            how = o.get("as", "list")        # extend takes ANY iterable of components: same model step for all forms
            if how == "tuple":
                cur.extend(tuple(objs))
            elif how == "generator":
                cur.extend(g for g in objs)
            elif how == "iterator":
                cur.extend(iter(objs))
            elif how == "map":
                cur.extend(map(lambda g: g, objs))
            else:
                cur.extend(objs)
        elif k == "insert":
            cur.insert(int(o["i"]), pool_obj(o["c"]))
        elif k == "remove":
            cur.remove(pool_obj(o["c"]))
        elif k == "pop":
            got = cur.pop(int(o["i"]))
            _LAST["popped"] = _TOK_OF.get(id(got), 0)
        elif k == "clear":
            cur.clear()
        elif k == "reverse":
            cur.reverse()
        else:
            raise RuntimeError(k)
        return cur, "ok"
    except Exception as e:  # noqa: BLE001
        return cur, classify(e)


def remove_is_safe(cur, tok):
    """True when list.remove only performs comparisons whose totality is not in question (see ASSUME)."""
    from FDApy.representation.functional_data import DenseFunctionalData
    item = pool_obj(tok)
    for el in cur.data:
        if el is item:
            return True
        if id(el) not in _TOK_OF:
            return False        # a derived (anonymous) component may be VALUE-equal to a pool object; == is C12's subject
        if not (isinstance(el, DenseFunctionalData) and isinstance(item, DenseFunctionalData)
                and el.values.shape == item.values.shape):
            return False
    return True


def applicable(cur, o):
    from FDApy.representation.functional_data import MultivariateFunctionalData, IrregularFunctionalData
    k = o["op"]
    mv = isinstance(cur, MultivariateFunctionalData)
    if k == "construct":
        return True
    if k in ("set_argvals", "set_values", "set_stand"):
        if mv:
            return False
        if k == "set_stand" and o["a"]["t"] != "wrong":
            return (o["a"]["t"] == "irr") == isinstance(cur, IrregularFunctionalData)
        return True
    if k == "index":
        return True
    if k == "concat":
        return bool(o.get("mv")) == mv
    if not mv:
        return False
    if k == "remove":
        return remove_is_safe(cur, o["c"])
    return True


def run_history(ops):
    """Run on the implementation.  Returns (trace, monitors) where trace = [(outcome, observation)]
    and monitors = list of direct findings (strings)."""
    from FDApy.representation.functional_data import MultivariateFunctionalData, IrregularFunctionalData
    cur = MultivariateFunctionalData([])
    trace, mon = [], []
    for j, o in enumerate(ops):
        if not applicable(cur, o):
            return None, None
        before = _identity(cur)
        popped_expect = None
        if o["op"] == "pop" and isinstance(cur, MultivariateFunctionalData):
            n = len(cur.data)
            i = int(o["i"])
            if -n <= i < n:
                popped_expect = _TOK_OF.get(id(cur.data[i]), 0)
        new, out = apply_op(cur, o)
        if out != "ok":
            if new is not cur or _identity(cur) != before:
                mon.append(f"step {j} ({o['op']}): raised {out} but the object was modified")
        elif o["op"] == "pop" and _LAST.get("popped") != popped_expect:
            mon.append(f"step {j}: pop returned component {_LAST.get('popped')} instead of {popped_expect}")
        cur = new
        if isinstance(cur, IrregularFunctionalData) and len(cur.values) == 0:
            return None, None       # empty irregular data: n_dimension is undefined (not generated, see notes)
        if out == "ok" and o["op"] in ("set_argvals", "construct") and not isinstance(cur, MultivariateFunctionalData):
            # an accepted assignment of sampling points: the standardised points are those of the NEW points
            try:
                if not (cur.argvals_stand == cur.argvals.normalization()):
                    mon.append(f"step {j} ({o['op']}): the standardised sampling points do not track the sampling points "
                               f"(argvals_stand is not the normalisation of the new argvals)")
            except Exception as e:  # noqa: BLE001
                mon.append(f"step {j} ({o['op']}): comparing argvals_stand with the normalised argvals raised {type(e).__name__}")
        if out == "ok" and o["op"] in ("index", "concat"):
            # a derived object (subset, concatenation) is a NEW dataset: its standardised points are those of ITS OWN sampling
            # points (every component of a multivariate result included), whatever the parent's were
            comps = list(cur.data) if isinstance(cur, MultivariateFunctionalData) else [cur]
            for ci, g in enumerate(comps):
                try:
                    if not hasattr(g, "argvals_stand") or isinstance(g, MultivariateFunctionalData):
                        continue
                    if isinstance(g, IrregularFunctionalData) and len(g.values) == 0:
                        continue
                    if not (g.argvals_stand == g.argvals.normalization()):
                        mon.append(f"step {j} ({o['op']}): the standardised sampling points of the result"
                                   f"{' (component %d)' % ci if len(comps) > 1 or comps[0] is not cur else ''} do not track its "
                                   f"sampling points (argvals_stand is not the normalisation of the result's own argvals)")
                        break
                except Exception as e:  # noqa: BLE001
                    mon.append(f"step {j} ({o['op']}): comparing the result's argvals_stand with its normalised argvals raised "
                               f"{type(e).__name__}")
                    break
        ob = observe(cur)
        if ob is None:
            mon.append(f"step {j} ({o['op']}): an observer raised on the resulting object")
        elif not ob.pop("_consistent"):
            mon.append(f"step {j} ({o['op']}): n_points of the object differs from n_points of its argvals")
        trace.append((out, ob))
        if ob is not None and ob["kind"] == 1 and ob["n_obs"] == 0:
            return None, None       # empty irregular data: n_dimension is undefined (not generated)
    return trace, mon


# --------------------------------------------------------------------------
# generators
# --------------------------------------------------------------------------
DENSE_AXES = [[[1, 5]], [[2, 5]], [[3, 4]], [[1, 5], [4, 3]], [[2, 5], [4, 3]], [[1, 3]]]


def _pick(rng, xs):
    return xs[int(rng.integers(len(xs)))]


def gen_construct(rng, valid, kind=None):
    kind = kind or _pick(rng, ["dense", "irr", "mv"])
    if kind == "dense":
        axes = _pick(rng, DENSE_AXES)
        n = int(rng.integers(1, 5))
        a = {"t": "dense", "axes": axes}
        v = {"t": "dense", "shape": [n] + [m for _, m in axes]}
        if not valid:
            how = int(rng.integers(6))
            if how == 0:
                v["shape"][-1] += 1                                   # wrong number of points
            elif how == 1:
                v["shape"] = v["shape"] + [2]                          # wrong dimension
            elif how == 2:
                v["shape"] = v["shape"][:-1] if len(v["shape"]) > 2 else [n]
            elif how == 3:
                a = {"t": "wrong", "how": _pick(rng, WRONG_A)}
            elif how == 4:
                v = {"t": "wrong", "how": _pick(rng, WRONG_V)}
            else:
                a = {"t": "irr", "pts": [[0, [5]]]}
        return {"op": "construct", "kind": "dense", "a": a, "v": v}
    if kind == "irr":
        k = int(rng.integers(1, 5))
        dim = 1 if rng.random() < 0.75 else 2
        pts = [[lab, [int(rng.integers(2, 6)) for _ in range(dim)]] for lab in range(k)]
        a = {"t": "irr", "pts": pts}
        v = {"t": "irr", "pts": [[lab, list(sh)] for lab, sh in pts]}
        if valid and rng.random() < 0.3 and k > 1:
            v["pts"] = v["pts"][::-1]                                  # dictionaries are unordered for ==
        if not valid:
            how = int(rng.integers(6))
            if how == 0:
                v["pts"][-1][1][0] += 1
            elif how == 1:
                v["pts"] = v["pts"][:-1] if k > 1 else v["pts"] + [[7, [3] * dim]]
            elif how == 2:
                v["pts"] = v["pts"] + [[k, [3] * dim]]
            elif how == 3:
                a = {"t": "wrong", "how": _pick(rng, WRONG_A)}
            elif how == 4:
                v = {"t": "wrong", "how": _pick(rng, WRONG_V)}
            else:
                v = {"t": "dense", "shape": [k, 3]}
        return {"op": "construct", "kind": "irr", "a": a, "v": v}
    toks = list(POOL)
    n = _pick(rng, [1, 2, 3, 3, 3, 4])
    same = [t for t in toks if pool_nobs(t) == n]
    k = int(rng.integers(0, 4))
    l = [_pick(rng, same) for _ in range(k)]
    if not valid:
        l = l + [_pick(rng, [t for t in toks if pool_nobs(t) != n])]
        if len(l) == 1:
            l = [_pick(rng, same)] + l
        rng.shuffle(l)
        l = [int(t) for t in l]
    return {"op": "construct", "kind": "mv", "l": l}


def gen_index(rng, n, valid, labels=None):
    """n = number of observations; labels (irregular) = list of labels."""
    how = int(rng.integers(3))
    if valid:
        if n == 0:
            return {"t": "slice", "a": None, "b": None, "c": None}
        if how == 0:
            i = int(_pick(rng, labels)) if labels is not None else int(rng.integers(-n, n))
            return {"t": "int", "i": i}
        if how == 1:
            for _ in range(20):
                a, b = [None if rng.random() < 0.3 else int(rng.integers(-n - 2, n + 3)) for _ in range(2)]
                c = _pick(rng, [None, None, 1, 2, -1, -2, 3])
                if len(range(*slice(a, b, c).indices(n))) > 0:
                    return {"t": "slice", "a": a, "b": b, "c": c}
            return {"t": "slice", "a": None, "b": None, "c": None}
        k = int(rng.integers(1, n + 2))
        if labels is not None:
            l = [int(_pick(rng, labels)) for _ in range(k)]
        else:
            l = [int(rng.integers(-n, n)) for _ in range(k)]
        return {"t": "arr", "l": l}
    if how == 0:
        return {"t": "int", "i": int(_pick(rng, [n, n + 3, -n - 1]))}
    if how == 1:
        return {"t": "slice", "a": None, "b": None, "c": 0}
    return {"t": "arr", "l": [0, int(_pick(rng, [n, n + 2, -n - 1]))] if n > 0 else [0]}


def gen_op(rng, cur, valid):
    from FDApy.representation.functional_data import (DenseFunctionalData, IrregularFunctionalData,
                                                      MultivariateFunctionalData)
    toks = list(POOL)
    if rng.random() < 0.08:
        return gen_construct(rng, valid)
    if isinstance(cur, MultivariateFunctionalData):
        n = cur.n_obs if len(cur.data) else None
        L = len(cur.data)
        same = [t for t in toks if n is None or pool_nobs(t) == n] or toks
        diff = [t for t in toks if n is not None and pool_nobs(t) != n]
        members = [t for t in (_TOK_OF.get(id(g), 0) for g in cur.data) if t]
        kinds = ["append", "extend", "insert", "remove", "pop", "clear", "reverse", "index", "concat"]
        w = np.array([3, 3, 3, 2, 2, 0.5, 1, 2, 1.5])
        k = kinds[int(rng.choice(len(kinds), p=w / w.sum()))]
        if k == "append":
            return {"op": "append", "c": int(_pick(rng, same if valid or not diff else diff))}
        if k == "extend":
            if n is None:
                m = _pick(rng, [2, 3])
                l = [int(_pick(rng, [t for t in toks if pool_nobs(t) == m])) for _ in range(int(rng.integers(0, 3)))]
                if not valid:
                    l = l + [int(_pick(rng, [t for t in toks if pool_nobs(t) != m]))] + [int(_pick(rng, [t for t in toks if pool_nobs(t) == m]))]
            else:
                l = [int(_pick(rng, same)) for _ in range(int(rng.integers(0, 3)))]
                if not valid and diff:
                    l.insert(int(rng.integers(len(l) + 1)), int(_pick(rng, diff)))
            return {"op": "extend", "l": l, "as": str(_pick(rng, ["list", "list", "tuple", "generator", "iterator", "map"]))}
        if k == "insert":
            return {"op": "insert", "i": int(rng.integers(-L - 2, L + 3)),
                    "c": int(_pick(rng, same if valid or not diff else diff))}
        if k == "remove":
            if valid and members:
                return {"op": "remove", "c": int(_pick(rng, members))}
            absent = [t for t in toks if t not in members]
            return {"op": "remove", "c": int(_pick(rng, absent))}
        if k == "pop":
            if valid and L:
                return {"op": "pop", "i": int(rng.integers(-L, L))}
            return {"op": "pop", "i": int(_pick(rng, [L, L + 2, -L - 1]))}
        if k in ("clear", "reverse"):
            return {"op": k}
        if k == "index":
            return {"op": "index", "ix": gen_index(rng, n or 0, valid if L else True)}
        # concat: partners component-wise compatible with the current components
        others = []
        for _ in range(int(rng.integers(1, 3))):
            l = []
            for g in cur.data:
                if isinstance(g, DenseFunctionalData):
                    ax = _AXES.get(id(g.argvals))
                    cand = [t for t in toks if POOL[t][0] == "dense" and POOL[t][1] == ax]
                else:
                    cand = [t for t in toks if POOL[t][0] == "irr" and len(POOL[t][1][0][1]) == g.n_dimension]
                l.append(int(_pick(rng, cand or toks)))
            others.append(l)
        if not valid:
            how = int(rng.integers(3))
            if how == 0 or not others[0]:
                others[0] = others[0] + [1]
            elif how == 1:
                j = int(rng.integers(len(others[0])))
                others[0][j] = int(_pick(rng, [t for t in toks if POOL[t][0] != POOL.get(others[0][j], ("x",))[0]]))
            else:
                j = int(rng.integers(len(others[0])))
                others[0][j] = int(_pick(rng, [3, 4, 5, 13]))
        return {"op": "concat", "mv": True, "others": others}
    if isinstance(cur, DenseFunctionalData):
        axes = _AXES[id(cur.argvals)]
        pts = [m for _, m in axes]
        k = _pick(rng, ["set_argvals", "set_values", "set_stand", "index", "concat", "set_values", "set_argvals"])
        if k in ("set_argvals", "set_stand"):
            a = {"t": "dense", "axes": [[int(rng.integers(1, 6)), m] for m in pts]}
            if valid and k == "set_argvals" and rng.uniform() < 0.4:
                # same size, same end points as the current grid, other interior points
                a = {"t": "dense", "axes": [[(t + 100 if t < 100 else t - 100), m] for t, m in axes]}
            if not valid:
                how = int(rng.integers(4))
                if how == 0:
                    a["axes"][-1][1] += int(_pick(rng, [-1, 1, 2]))
                elif how == 1:
                    a["axes"] = a["axes"] + [[1, 3]]
                elif how == 2 and k == "set_argvals":
                    a = {"t": "irr", "pts": [[0, pts]]}
                else:
                    a = {"t": "wrong", "how": _pick(rng, WRONG_A)}
            return {"op": k, "a": a}
        if k == "set_values":
            v = {"t": "dense", "shape": [int(rng.integers(1, 6))] + pts, "off": float(rng.integers(50))}
            if not valid:
                how = int(rng.integers(4))
                if how == 0:
                    v["shape"][-1] += int(_pick(rng, [-1, 1]))
                elif how == 1:
                    v["shape"] = v["shape"] + [2]
                elif how == 2:
                    v = {"t": "irr", "pts": [[0, pts]]}
                else:
                    v = {"t": "wrong", "how": _pick(rng, WRONG_V)}
            return {"op": k, "v": v}
        if k == "index":
            return {"op": "index", "ix": gen_index(rng, cur.n_obs, valid)}
        cand = [t for t in toks if POOL[t][0] == "dense" and POOL[t][1] == axes]
        if valid and cand:
            return {"op": "concat", "others": [int(_pick(rng, cand)) for _ in range(int(rng.integers(1, 3)))]}
        bad = [t for t in toks if not (POOL[t][0] == "dense" and POOL[t][1] == axes)]
        l = [int(_pick(rng, cand))] if cand and rng.random() < 0.5 else []
        return {"op": "concat", "others": l + [int(_pick(rng, bad))]}
    # irregular
    labs = [int(x) for x in cur.argvals.keys()]
    pts = [[int(lab), [int(v) for v in t]] for lab, t in cur.argvals.n_points.items()]
    dim = len(pts[0][1])
    k = _pick(rng, ["set_argvals", "set_values", "set_stand", "index", "concat", "set_values", "set_argvals"])
    if k in ("set_argvals", "set_stand", "set_values"):
        q = [[lab, list(sh)] for lab, sh in pts]
        if rng.random() < 0.3:
            q = q[::-1]
        spec = {"t": "irr", "pts": q}
        if not valid:
            how = int(rng.integers(5))
            if how == 0:
                q[0][1][0] += 1
            elif how == 1:
                q.append([max(labs) + 1, [3] * dim])
            elif how == 2 and len(q) > 1:
                q.pop()
            elif how == 3 and k != "set_stand":
                spec = {"t": "dense", "axes": [[1, 5]]} if k == "set_argvals" else {"t": "dense", "shape": [len(labs), 5]}
            else:
                spec = {"t": "wrong", "how": _pick(rng, WRONG_V if k == "set_values" else WRONG_A)}
        if k == "set_values":
            spec["off"] = float(rng.integers(50))
            return {"op": k, "v": spec}
        return {"op": k, "a": spec}
    if k == "index":
        canonical = labs == list(range(len(labs)))
        ix = gen_index(rng, len(labs), valid, labels=labs)
        if ix["t"] == "slice" and not canonical and valid:
            ix = {"t": "int", "i": int(_pick(rng, labs))}
        return {"op": "index", "ix": ix}
    cand = [t for t in toks if POOL[t][0] == "irr" and len(POOL[t][1][0][1]) == dim]
    if valid and cand:
        return {"op": "concat", "others": [int(_pick(rng, cand)) for _ in range(int(rng.integers(1, 3)))]}
    bad = [t for t in toks if t not in cand]
    return {"op": "concat", "others": [int(_pick(rng, bad))]}


def gen_history(rng, length, p_valid):
    """Generate while running (the generator looks at the current real object to know what is acceptable)."""
    from FDApy.representation.functional_data import MultivariateFunctionalData
    cur = MultivariateFunctionalData([])
    ops = []
    start = rng.random()
    tries = 0
    while len(ops) < length and tries < 10 * length + 20:
        tries += 1
        valid = rng.random() < p_valid
        if not ops and start < 0.6:
            o = gen_construct(rng, valid or rng.random() < 0.5, kind="dense" if start < 0.3 else "irr")
        else:
            o = gen_op(rng, cur, valid)
        if not applicable(cur, o):
            continue
        new, out = apply_op(cur, o)
        if not isinstance(new, MultivariateFunctionalData) and new.n_obs == 0 and hasattr(new.values, "keys"):
            continue
        cur = new
        ops.append(o)
    return ops


# --------------------------------------------------------------------------
# comparison with the model, shrinking, reporting
# --------------------------------------------------------------------------
def clean(ops):
    return [{k: v for k, v in o.items() if not k.startswith("_")} for o in ops]


def parse_bools(s):
    s = s.strip()
    if not (s.startswith("[") and s.endswith("]")):
        raise RuntimeError(f"unexpected model output {s[:200]!r}")
    body = s[1:-1].strip()
    return [] if not body else [x.strip() == "true" for x in body.split(";")]


def evaluate(histories, shard=12, defect=False):
    """histories: list of op lists.  Returns per history None (not applicable) or
    (trace, monitors, per-step agreement booleans)."""
    run = C.CoqRun("C11", IMPORTS, shard=shard)
    slots = []
    for ops in histories:
        tr, mon = run_history(ops)
        if tr is None:
            slots.append(None)
            continue
        fn = "check_trace_defect" if defect else "check_trace"
        t = run.add(f"({fn} [" + "; ".join(op_lit(o) for o in ops) + f"] {trace_lit(tr)})%nat")
        slots.append((tr, mon, t))
    res = run.run(kind="raw")
    out = []
    for sl in slots:
        if sl is None:
            out.append(None)
        else:
            out.append((sl[0], sl[1], parse_bools(res[sl[2]])))
    return out


def first_bad(ev):
    tr, mon, ok = ev
    for j, b in enumerate(ok):
        if not b:
            return j
    return None


def signature(ops, ev):
    j = first_bad(ev)
    if j is None:
        return None
    o = ops[j]
    extra = o.get("kind", "") if o["op"] == "construct" else (o.get("a", o.get("v", {})).get("t", "") if o["op"].startswith("set_") else "")
    return (o["op"], extra, ev[0][j][0])


def shrink(ops, ev, budget_rounds=14):
    """Delta debugging on the operation list: keep the first disagreement (same operation, same implementation outcome)."""
    sig = signature(ops, ev)
    ops = ops[:first_bad(ev) + 1]
    rounds = 0
    changed = True
    while changed and rounds < budget_rounds and len(ops) > 1:
        changed = False
        rounds += 1
        # try halves first, then single deletions (all candidates of a round in one batch)
        cands = []
        n = len(ops)
        if n >= 4:
            cands.append(ops[n // 2:])
            cands.append(ops[:n // 2] + ops[-1:])
        cands += [ops[:i] + ops[i + 1:] for i in range(n - 1)]
        evs = evaluate(cands, shard=4)
        for c, e in zip(cands, evs):
            if e is not None and signature(c, e) == sig:
                ops = c[:first_bad(e) + 1]
                changed = True
                break
    return ops


def model_trace(ops):
    run = C.CoqRun("C11", IMPORTS, shard=4)
    run.add("(map fst (trace_with step init [" + "; ".join(op_lit(o) for o in ops) + "]))%nat")
    return run.run(kind="raw")[0]


def describe(o):
    d = {k: v for k, v in o.items() if not k.startswith("_")}
    return json.dumps(d, sort_keys=True)


def process(rep, histories, kind, quick, state):
    evs = evaluate(histories)
    for ops, ev in zip(histories, evs):
        if ev is None:
            state["filtered"] += 1
            continue
        tr, mon, ok = ev
        outs = [o for o, _ in tr]
        nontriv = "ok" in outs and len(ops) >= 2
        rep.case(("hist", json.dumps(clean(ops), sort_keys=True)), nontrivial=nontriv, kind=f"{kind}/len{min(len(ops), 13)}",
                 sample={"kind": kind, "ops": [o["op"] for o in ops], "outcomes": outs})
        for o, out in zip(ops, outs):
            key = f"op:{o['op']}:{out}"
            rep.dist[key] = rep.dist.get(key, 0) + 1
        state["steps"] += len(ops)
        for m in mon:
            mk = m.split(":", 1)[1] if ":" in m else m
            if mk not in state["mon_seen"]:
                state["mon_seen"].add(mk)
                rep.violation("monitor: " + m, {"history": clean(ops), "monitor": m})
        j = first_bad(ev)
        if j is None:
            continue
        rep.disagreements_checked += 1
        sig = signature(ops, ev)
        state["sig_count"][sig] = state["sig_count"].get(sig, 0) + 1
        if state["sig_count"][sig] > (1 if quick else 2):
            continue
        state["shrinks"] = state.get("shrinks", 0) + 1
        if state["shrinks"] <= (6 if quick else 20):
            small = shrink(ops, ev)
        else:                                   # time budget: keep the prefix up to the first disagreement
            small = ops[:j + 1]
        small = clean(small)
        tr2, _ = run_history(small)
        req = model_trace(small)
        key = json.dumps(small, sort_keys=True)
        if key in state["reported"]:
            continue
        state["reported"].add(key)
        rep.violation(
            f"history of {len(small)} operation(s): after `{small[-1]['op']}` the implementation reports "
            f"{tr2[-1][0] if tr2 else '?'} / observers {json.dumps(tr2[-1][1]) if tr2 else '?'}; required outcomes {req}",
            {"history": small, "original_length": len(ops), "implementation_trace": [[o, ob] for o, ob in (tr2 or [])],
             "required_outcomes": req, "signature": list(sig)})


# small argument alphabets for the exhaustive part
def alphabets():
    d1 = {"t": "dense", "axes": [[1, 5]]}
    mv = [{"op": "append", "c": 1}, {"op": "append", "c": 8}, {"op": "extend", "l": [2, 6]}, {"op": "extend", "l": [8]},
          {"op": "extend", "l": [1, 8]}, {"op": "insert", "i": 0, "c": 3}, {"op": "insert", "i": -1, "c": 14},
          {"op": "remove", "c": 1}, {"op": "remove", "c": 12}, {"op": "pop", "i": -1}, {"op": "pop", "i": 1},
          {"op": "clear"}, {"op": "reverse"}, {"op": "index", "ix": {"t": "slice", "a": None, "b": 2, "c": None}},
          {"op": "construct", "kind": "mv", "l": [1, 6]}, {"op": "construct", "kind": "mv", "l": [1, 8]}]
    dn = [{"op": "construct", "kind": "dense", "a": d1, "v": {"t": "dense", "shape": [3, 5]}},
          {"op": "construct", "kind": "dense", "a": d1, "v": {"t": "dense", "shape": [3, 4]}},
          {"op": "set_argvals", "a": {"t": "dense", "axes": [[2, 5]]}}, {"op": "set_argvals", "a": {"t": "dense", "axes": [[3, 4]]}},
          {"op": "set_argvals", "a": {"t": "dense", "axes": [[101, 5]]}},
          {"op": "set_argvals", "a": {"t": "wrong", "how": "dict"}},
          {"op": "set_values", "v": {"t": "dense", "shape": [2, 5]}}, {"op": "set_values", "v": {"t": "dense", "shape": [2, 4]}},
          {"op": "set_values", "v": {"t": "wrong", "how": "ndarray"}},
          {"op": "set_stand", "a": {"t": "dense", "axes": [[2, 5]]}}, {"op": "set_stand", "a": {"t": "dense", "axes": [[3, 4]]}},
          {"op": "set_stand", "a": {"t": "wrong", "how": "none"}},
          {"op": "index", "ix": {"t": "int", "i": -1}}, {"op": "index", "ix": {"t": "int", "i": 3}},
          {"op": "index", "ix": {"t": "arr", "l": [1, 0, 1]}},
          {"op": "concat", "others": [8]}, {"op": "concat", "others": [3]}, {"op": "concat", "others": [6]}]
    p3 = [[0, [3]], [1, [4]], [2, [2]]]
    ir = [{"op": "construct", "kind": "irr", "a": {"t": "irr", "pts": p3}, "v": {"t": "irr", "pts": p3}},
          {"op": "construct", "kind": "irr", "a": {"t": "irr", "pts": p3}, "v": {"t": "irr", "pts": p3[:2]}},
          {"op": "set_argvals", "a": {"t": "irr", "pts": p3[::-1]}}, {"op": "set_argvals", "a": {"t": "irr", "pts": p3[:2]}},
          {"op": "set_argvals", "a": {"t": "wrong", "how": "irr-array-value"}},
          {"op": "set_argvals", "a": {"t": "wrong", "how": "irr-nested"}},
          {"op": "set_values", "v": {"t": "irr", "pts": p3}}, {"op": "set_values", "v": {"t": "irr", "pts": [[0, [3]], [1, [4]], [2, [3]]]}},
          {"op": "set_values", "v": {"t": "wrong", "how": "irr-str-key"}},
          {"op": "set_stand", "a": {"t": "irr", "pts": p3}}, {"op": "set_stand", "a": {"t": "irr", "pts": [[0, [3]], [1, [2]], [2, [2]]]}},
          {"op": "set_stand", "a": {"t": "wrong", "how": "ndarray"}},
          {"op": "index", "ix": {"t": "int", "i": 1}}, {"op": "index", "ix": {"t": "int", "i": 3}},
          {"op": "index", "ix": {"t": "slice", "a": 1, "b": None, "c": None}},
          {"op": "index", "ix": {"t": "arr", "l": [2, 0]}},
          {"op": "concat", "others": [9]}, {"op": "concat", "others": [1]}, {"op": "concat", "others": [13]}]
    return {"mv": ([], mv), "dense": ([dn[0]], dn), "irr": ([ir[0]], ir)}



def normalization_tie(rep):
    """Value-level tie of "standardised sampling points track the sampling points" for irregular data: the implementation's
    `argvals_stand` — of freshly built objects, of subsets, of concatenations — against Model/Normalize.v (`norm_irr`, the
    affine map with the object's own global minimum and maximum) evaluated in Q on the same sampling points."""
    from FDApy.representation.functional_data import IrregularFunctionalData
    from harness import fd
    rng = np.random.default_rng([C.seed(), 11, 29])
    run = C.CoqRun("C11", "From FDAV Require Import Model.Normalize Tie.C11Norm.", shard=4)
    todo = []

    def lit(rows):
        return "[" + "; ".join(C.qlist(r) for r in rows) + "]"

    def add(label, obj, info):
        keys = list(obj.argvals.keys())
        pts = [np.asarray(obj.argvals[k]["input_dim_0"], float) for k in keys]
        st = [np.asarray(obj.argvals_stand[k]["input_dim_0"], float) for k in keys]
        t = run.add(f"norm_ok (1#1000000000000) {lit(pts)} {lit(st)}")
        todo.append((t, label, {**info, "points": [p.tolist() for p in pts], "argvals_stand": [s_.tolist() for s_ in st]}))
    for rnd in range(6):
        n = int(rng.integers(3, 7))
        lo = float(np.round(rng.uniform(-3, 3) * 8) / 8)
        ts = []
        for k in range(n):
            m = int(rng.integers(2, 6))
            ts.append(np.unique(np.round((lo + rng.uniform(0, 4, size=m) + 0.5 * k) * 64) / 64))
        if any(len(t) < 2 for t in ts):
            continue
        xs = [np.round(rng.normal(size=len(t)) * 16) / 16 for t in ts]
        parent = fd.irregular(ts, xs)
        info = {"n_obs": n}
        add("freshly built irregular dataset", parent, info)
        inner = parent[1:n - 1] if n >= 4 else parent[1:2]
        add("slice without the first and last observation", inner, info)
        add("single observation by integer index", parent[int(rng.integers(0, n))], info)
        add("array-indexed subset", parent[np.array(sorted(set(int(i) for i in rng.integers(0, n, size=2))))], info)
        try:
            add("concatenation of two subsets", IrregularFunctionalData.concatenate(parent[0:1], parent[1:2]), info)
        except Exception:  # noqa: BLE001
            pass            # relabelling of concatenated irregular data is C13's subject (F9c)
    # dense data: every dimension's grid against norm_dense (fresh objects, after an accepted `argvals` assignment, subsets)
    from FDApy.representation.argvals import DenseArgvals

    def add_dense(label, obj):
        for dim in obj.argvals.keys():
            pts = np.asarray(obj.argvals[dim], float)
            st = np.asarray(obj.argvals_stand[dim], float)
            t = run.add(f"norm_dense_ok (1#1000000000000) {C.qlist(pts)} {C.qlist(st)}")
            todo.append((t, label + f" ({dim})", {"points": [pts.tolist()], "argvals_stand": [st.tolist()]}))
    for rnd in range(4):
        m1, m2 = int(rng.integers(3, 8)), int(rng.integers(2, 6))
        g1 = np.unique(np.round((rng.uniform(-2, 6) + rng.uniform(0, 5, size=m1)) * 32) / 32)
        g2 = np.unique(np.round((rng.uniform(-2, 6) + rng.uniform(0, 3, size=m2)) * 32) / 32)
        if len(g1) < 2 or len(g2) < 2:
            continue
        d1 = fd.dense(g1, np.round(rng.normal(size=(3, len(g1))) * 16) / 16)
        add_dense("freshly built dense dataset", d1)
        add_dense("dense subset", d1[1:3])
        d2 = fd.dense([g1, g2], np.round(rng.normal(size=(2, len(g1), len(g2))) * 16) / 16)
        add_dense("freshly built 2-D dense dataset", d2)
        moved = np.round((g1 * 3.0 - 1.0) * 32) / 32
        d1.argvals = DenseArgvals({"input_dim_0": moved})
        add_dense("dense dataset after its sampling points were replaced", d1)
    res = run.run()
    for t, label, info in todo:
        rep.case(("normalization", label, str(info["points"])), kind="normalization/" + label)
        if not res[t]:
            rep.disagreements_checked += 1
            rep.violation(f"standardised sampling points of a {label} are not the affine image of ITS sampling points on [0, 1] "
                          "(Model/Normalize.v norm_irr / norm_dense: minimum and maximum of the object itself)", info)


def run(rep, props, replay=None):
    quick = C.tier() == "quick"
    rng = np.random.default_rng([C.seed(), 11])
    for t in POOL:
        pool_obj(t)
    state = {"filtered": 0, "steps": 0, "sig_count": {}, "reported": set(), "mon_seen": set()}
    if replay is not None and replay.get("points") and not replay.get("history"):
        # a violation of the normalisation tie: rebuild a fresh object on the stored sampling points and compare its
        # standardised points with the model again
        from harness import fd
        pts = [np.asarray(p_, float) for p_ in replay["points"]]
        runr = C.CoqRun("C11", "From FDAV Require Import Model.Normalize Tie.C11Norm.", shard=1)
        lit = "[" + "; ".join(C.qlist(r) for r in pts) + "]"
        try:
            obj = fd.irregular(pts, [np.zeros(len(p_)) for p_ in pts])
            st = [np.asarray(obj.argvals_stand[k]["input_dim_0"], float) for k in obj.argvals.keys()]
            t = runr.add(f"norm_ok (1#1000000000000) {lit} [" + "; ".join(C.qlist(r) for r in st) + "]")
            ok = runr.run()[t]
        except Exception as e:  # noqa: BLE001
            ok = False
            print(f"replay: rebuilding the object raised {type(e).__name__}: {e}")
        rep.case(("normalization-replay", str(replay["points"])), kind="normalization/replay")
        if not ok:
            rep.violation("standardised sampling points of a freshly built irregular dataset on the stored sampling points are not "
                          "the affine image of its sampling points on [0, 1] (Model/Normalize.v)", {"points": replay["points"]})
        else:
            print("replay: a fresh object on these sampling points is standardised as the model says now (the stored violation "
                  "concerned: " + str(replay.get("what", "a derived object"))[:160] + ")")
        return
    if replay is not None:
        ops = replay.get("history")
        if not ops:
            print("replay: no history stored in this file")
            return
        process(rep, [ops], "replay", False, state)
        if not rep.violations:
            print("replay: implementation and model agree on this history now")
        return
    # corpus: the witnesses of the refutation theorems and a few hand-picked interleavings
    corpus = [
        [{"op": "append", "c": 1}, {"op": "extend", "l": [8]}],
        [{"op": "append", "c": 1}, {"op": "insert", "i": 0, "c": 8}],
        [{"op": "construct", "kind": "dense", "a": {"t": "dense", "axes": [[1, 5]]}, "v": {"t": "dense", "shape": [3, 5]}},
         {"op": "set_stand", "a": {"t": "dense", "axes": [[3, 4]]}}],
        [{"op": "construct", "kind": "irr", "a": {"t": "irr", "pts": [[0, [3]], [1, [4]]]}, "v": {"t": "irr", "pts": [[1, [4]], [0, [3]]]}},
         {"op": "set_stand", "a": {"t": "irr", "pts": [[0, [3]], [1, [5]]]}}],
        [{"op": "append", "c": 1}, {"op": "append", "c": 6}, {"op": "append", "c": 8}, {"op": "pop", "i": 0},
         {"op": "reverse"}, {"op": "index", "ix": {"t": "slice", "a": None, "b": None, "c": -1}},
         {"op": "concat", "mv": True, "others": [[7]]}, {"op": "clear"}, {"op": "pop", "i": -1}],
        [{"op": "construct", "kind": "dense", "a": {"t": "dense", "axes": [[1, 5], [4, 3]]}, "v": {"t": "dense", "shape": [2, 5, 3]}},
         {"op": "index", "ix": {"t": "int", "i": 1}}, {"op": "concat", "others": [5, 10]},
         {"op": "set_values", "v": {"t": "dense", "shape": [4, 5, 3]}}, {"op": "set_argvals", "a": {"t": "dense", "axes": [[2, 5], [4, 3]]}},
         {"op": "concat", "others": [5]}],
        [{"op": "construct", "kind": "irr", "a": {"t": "irr", "pts": [[0, [3]], [1, [4]], [2, [2]]]},
          "v": {"t": "irr", "pts": [[0, [3]], [1, [4]], [2, [2]]]}},
         {"op": "index", "ix": {"t": "slice", "a": 1, "b": None, "c": None}}, {"op": "index", "ix": {"t": "int", "i": 0}},
         {"op": "index", "ix": {"t": "slice", "a": None, "b": None, "c": None}}, {"op": "concat", "others": [9]},
         {"op": "index", "ix": {"t": "arr", "l": [2, 2, 1]}}],
    ]
    process(rep, corpus, "corpus", quick, state)
    n_valid, n_mal = (110, 60) if quick else (1500, 700)
    maxlen = 12 if quick else 40
    hs = [gen_history(rng, int(rng.integers(1, maxlen + 1)), 0.75) for _ in range(n_valid)]
    process(rep, [h for h in hs if h], "valid-stream", quick, state)
    hs = [gen_history(rng, int(rng.integers(1, maxlen + 1)), 0.3) for _ in range(n_mal)]
    process(rep, [h for h in hs if h], "malformed-stream", quick, state)
    # exhaustive: every history of length <= 2 (quick) / 3 (thorough) over a small alphabet, per kind
    depth = 2 if quick else 3
    for name, (prefix, alpha) in alphabets().items():
        hs = [prefix + [dict(o) for o in combo] for combo in itertools.product(alpha, repeat=depth)]
        for lo in range(0, len(hs), 1500):
            process(rep, hs[lo:lo + 1500], f"exhaustive-{name}", quick, state)
    rep.extra["steps_compared"] = state["steps"]
    normalization_tie(rep)
    rep.extra["histories_filtered"] = state["filtered"]
    rep.extra["disagreement_signatures"] = {"/".join(map(str, k)): v for k, v in state["sig_count"].items()}
    rep.notes.append("filtered = histories containing a remove() whose list scan would compare objects of different shapes (C12/F8), "
                     "or producing an empty irregular selection")
