"""C16 — analysis never changes its inputs and is repeatable.

Dynamic correspondence with the heap model of Model/Heap.v + Model/Purity.v:

* every mutable thing reachable from an input / configuration object / earlier result is a
  *location* (array buffers by owning base object, containers and FDApy objects by identity);
  a deep snapshot maps location -> digest (bytes, dtype, shape / keys and child locations);
* one *call* = (argument footprint, observed writes, fresh allocations, result footprint);
  the record is handed to the Coq model (`call_ok`, `history_ok`) which decides whether the
  frame condition assumed by `frame_lifts_to_histories` holds: writes only to locations the
  call allocated, result footprint disjoint from the non-frozen argument footprint;
* direct monitors on the implementation: snapshots of inputs / configuration / earlier results
  before vs after each call and each pair of consecutive calls; `np.shares_memory` / identity
  between result and inputs; probe mutation of the result (write into it, inputs must not
  move); repeat-call and refit equality (bitwise); heap poisoning with two sentinels.

Cache attributes of data objects (`_mean`, `_covariance`, ...) and the fitted attributes of
estimators are *slots*: rebinding them is allowed; the objects they pointed to are earlier
results and must not be modified in place.
"""
from __future__ import annotations

import copy
import gc
import hashlib
import warnings
from collections import UserDict, UserList

import numpy as np

from harness import common as C
from harness import fd

IMPORTS = "From FDAV Require Import Model.Heap Model.Purity Tie.C16."

RULE = ("every public analysis method of Dense (1-D, 2-D), Irregular, Basis and Multivariate functional data (mean, center, smooth, "
        "norm, normalize, standardize, rescale, covariance, inner_product, noise_variance, to_long, to_basis/to_grid, concatenate, "
        "arithmetic) and every estimator (UFPCA, MFPCA, FCPTPA, PSplines, LocalPolynomial: fit, transform, inverse_transform, "
        "predict) with generated argument combinations, on data incl. zero-variance points: deep snapshot of inputs / user "
        "configuration / earlier results before vs after each call and each ordered pair of consecutive calls A;B (B on the input and "
        "on A's result); result vs input aliasing (identity, np.shares_memory, probe mutation); repeat-call and refit equality "
        "(bitwise; np.random.seed fixed for FCPTPA); heap poisoning with sentinels 1e300 / -7.25; the observed per-call "
        "(args, writes, fresh, roots) records are checked against the frame condition of the Coq model. Non-trivial = the call "
        "returned a result (no exception); distinct by (class, method, arguments, data kind).")
ASSUME = ["locations are observed at the granularity of array buffers / containers; a write that restores the exact bytes before the call "
          "returns is invisible", "cache attributes of data objects and fitted attributes of estimators are slots (rebinding allowed)",
          "sampling points (argvals) and the basis of basis-expansion data are shared by design between inputs and results; they are "
          "frozen locations: sharing is allowed, any write to them is a violation",
          "heap poisoning relies on the allocator handing back recently freed blocks (checked by a self-test on np.empty)",
          "statsmodels is not installed: ModuleNotFoundError from Basis.inner_product is counted as an environment limitation"]

CACHE_ATTRS = {"_mean", "_covariance", "_noise_variance", "_noise_variance_cov", "_data_inpro", "_inner_product_matrix",
               "_index", "_fdata"}
FROZEN_ATTRS = {"_argvals", "_argvals_stand", "argvals", "argvals_stand", "basis", "_basis"}
SENTINELS = (1e300, -7.25)
ON_RESULT_B = {"center()", "normalize()", "standardize()", "rescale()", "smooth()", "concatenate(self,other)", "self+other",
               "to_basis()", "to_grid()", "mean()", "covariance()"}
FROZEN_TYPES = {"DenseArgvals", "IrregularArgvals", "Basis", "MultivariateBasis"}


# ==================================================================================
# locations and snapshots
# ==================================================================================
class Registry:
    """identity -> small natural number; keeps the objects alive so identities are never reused."""

    def __init__(self):
        self.ids = {}
        self.keep = []

    @property
    def next(self):
        return len(self.keep)

    def loc(self, obj):
        k = id(obj)
        if k not in self.ids:
            self.ids[k] = len(self.keep)
            self.keep.append(obj)
        return self.ids[k]


def array_owner(a):
    b = a
    while isinstance(getattr(b, "base", None), np.ndarray):
        b = b.base
    return b


def _scalar(x):
    if isinstance(x, (float, np.floating)):
        return "f:" + float(x).hex()
    return f"{type(x).__name__}:{x!r}"


class Node:
    __slots__ = ("kind", "digest", "frozen", "path", "ref")

    def __init__(self, kind, digest, frozen, path, ref):
        self.kind, self.digest, self.frozen, self.path, self.ref = kind, digest, frozen, path, ref


def is_fd_object(x):
    return type(x).__module__.startswith("FDApy")


class _Cell:
    __slots__ = ("name",)

    def __init__(self, name):
        self.name = name


def _value_token(v):
    """value (not identity) of a configuration entry"""
    if v is None or isinstance(v, (bool, int, float, complex, str, bytes, np.generic)):
        return _scalar(v)
    if isinstance(v, np.ndarray):
        a = np.asarray(v)
        if a.dtype.kind in "fiub":
            return f"arr{a.shape}:" + ",".join(float(x).hex() for x in a.ravel())
    return "deep:" + result_bytes(v)


def _ints_token(v):
    """int k and an array of k's are the same configuration (PSplines promotes on fit)"""
    try:
        a = np.atleast_1d(np.asarray(v))
        if a.size and a.dtype.kind in "iu" and np.all(a == a.ravel()[0]):
            return f"ints:{int(a.ravel()[0])}"
    except Exception:  # noqa: BLE001
        pass
    return _value_token(v)


def _ones_token(v):
    """weights=None means 'one per component' (documented); MFPCA.fit writes the ones out"""
    if v is None:
        return "ones"
    a = np.asarray(v)
    if a.dtype.kind in "fiu" and a.size and np.all(a == 1):
        return "ones"
    return _value_token(v)


class ConfigView:
    """the constructor arguments of an estimator as seen NOW through the public properties and
    through the private attributes; one location per entry, compared by value"""

    SPEC = {
        "UFPCA": [("method", None), ("n_components", None), ("normalize", None)],
        "MFPCA": [("method", None), ("n_components", None), ("normalize", None), ("weights", _ones_token),
                  ("univariate_expansion", None)],
        "FCPTPA": [("n_components", None), ("normalize", None)],
        "PSplines": [("n_segments", _ints_token), ("degree", _ints_token), ("order_penalty", None), ("order_derivative", None)],
        "LocalPolynomial": [("kernel_name", None), ("bandwidth", None), ("degree", None), ("robust", None)],
    }

    def __init__(self, est):
        self.est = est
        self.spec = self.SPEC[type(est).__name__]
        self.cells = {}
        for name, _ in self.spec:
            self.cells["public." + name] = _Cell(name)
            self.cells["private._" + name] = _Cell(name)

    def current(self):
        out = {}
        for name, canon in self.spec:
            canon = canon or _value_token
            try:
                out["public." + name] = canon(getattr(self.est, name))
            except Exception as e:  # noqa: BLE001
                out["public." + name] = "unreadable:" + type(e).__name__
            d = vars(self.est)
            out["private._" + name] = canon(d["_" + name]) if "_" + name in d else "absent"
        return out


def snapshot(roots, reg, frozen_roots=False):
    """Deep snapshot: {loc: Node}.  `roots` is a list of (name, object)."""
    out = {}

    def visit(x, path, frozen):
        # returns a digest token for the parent
        if x is None or isinstance(x, (bool, int, float, complex, str, bytes, np.generic)):
            return _scalar(x)
        if isinstance(x, np.ndarray):
            loc = reg.loc(array_owner(x))
            a = np.asarray(x)
            if a.dtype == object:
                dg = "obj[" + ",".join(visit(e, f"{path}[{i}]", frozen) for i, e in enumerate(a.ravel())) + "]"
            else:
                dg = hashlib.sha1(np.ascontiguousarray(a).tobytes()).hexdigest()
            tok = f"arr@{loc}:{a.dtype}:{a.shape}:{dg}"
            node = out.get(loc)
            if node is None:
                out[loc] = Node("array", tok, frozen, path, x)
            else:
                node.digest += "|" + tok          # several views of one buffer
                node.frozen = node.frozen and frozen
            return f"@{loc}"
        try:
            import pandas as pd
            if isinstance(x, (pd.DataFrame, pd.Series)):
                loc = reg.loc(x)
                dg = hashlib.sha1(np.ascontiguousarray(x.to_numpy(dtype=float, na_value=np.nan)).tobytes()).hexdigest()
                out[loc] = Node("frame", f"{list(getattr(x, 'columns', []))}:{x.shape}:{dg}", frozen, path, x)
                return f"@{loc}"
        except ImportError:  # pragma: no cover
            pass
        if isinstance(x, ConfigView):
            for name, tok in x.current().items():
                out[reg.loc(x.cells[name])] = Node("config", tok, False, f"{path}.{name}", x.cells[name])
            return f"cfg@{reg.loc(x)}"
        if is_fd_object(x) and type(x).__name__ in FROZEN_TYPES:
            frozen = True         # sampling points and bases: shared by design, never written
        loc = reg.loc(x)
        if loc in out:
            out[loc].frozen = out[loc].frozen and frozen
            return f"@{loc}"
        node = Node("container", None, frozen, path, x)
        out[loc] = node
        if isinstance(x, (dict, UserDict)):
            items = [(repr(k), v) for k, v in (x.data if isinstance(x, UserDict) else x).items()]
            toks = [f"{k}={visit(v, f'{path}[{k}]', frozen)}" for k, v in sorted(items, key=lambda kv: kv[0])]
            extra = []
            if isinstance(x, UserDict) and is_fd_object(x):
                extra = [f"{k}={visit(v, f'{path}.{k}', frozen)}" for k, v in sorted(vars(x).items())
                         if k != "data" and k not in CACHE_ATTRS]
            node.digest = type(x).__name__ + "{" + ",".join(toks + extra) + "}"
        elif isinstance(x, (list, tuple, UserList)):
            seq = x.data if isinstance(x, UserList) else x
            toks = [visit(v, f"{path}[{i}]", frozen) for i, v in enumerate(seq)]
            node.digest = type(x).__name__ + "[" + ",".join(toks) + "]"
        elif is_fd_object(x) and hasattr(x, "__dict__"):
            toks = []
            for k, v in sorted(vars(x).items()):
                if k in CACHE_ATTRS:
                    continue
                toks.append(f"{k}={visit(v, f'{path}.{k}', frozen or k in FROZEN_ATTRS)}")
            node.digest = type(x).__name__ + "(" + ",".join(toks) + ")"
        else:
            node.digest = f"opaque:{type(x).__name__}"
        return f"@{loc}"

    for name, obj in roots:
        visit(obj, name, frozen_roots)
    return out


def diff_snap(before, after):
    """locations of `before` whose digest changed (or that are no longer reachable)."""
    bad = []
    for loc, nb in before.items():
        na = after.get(loc)
        if na is None:
            continue          # no longer reachable: the parent container's digest changed as well
        if na.digest != nb.digest:
            bad.append((loc, nb.path, nb.kind))
    return bad


def arrays_of(snap, frozen=None):
    return [(loc, n) for loc, n in snap.items() if n.kind == "array" and (frozen is None or n.frozen == frozen)]


def result_bytes(x):
    """canonical bytes of a result for bitwise repeat comparison."""
    h = hashlib.sha1()

    def visit(v):
        if v is None or isinstance(v, (bool, int, float, complex, str, bytes, np.generic)):
            h.update(_scalar(v).encode())
        elif isinstance(v, np.ndarray):
            a = np.asarray(v)
            h.update(f"{a.dtype}{a.shape}".encode())
            if a.dtype == object:
                for e in a.ravel():
                    visit(e)
            else:
                h.update(np.ascontiguousarray(a).tobytes())
        elif isinstance(v, (dict, UserDict)):
            for k, e in sorted(((repr(k), e) for k, e in (v.data if isinstance(v, UserDict) else v).items()), key=lambda kv: kv[0]):
                h.update(k.encode())
                visit(e)
            if isinstance(v, UserDict) and is_fd_object(v):
                for k, e in sorted(vars(v).items()):
                    if k != "data" and k not in CACHE_ATTRS:
                        visit(e)
        elif isinstance(v, (list, tuple, UserList)):
            h.update(f"[{len(v)}".encode())
            for e in (v.data if isinstance(v, UserList) else v):
                visit(e)
        elif type(v).__module__.startswith("pandas"):
            h.update(np.ascontiguousarray(v.to_numpy(dtype=float, na_value=np.nan)).tobytes())
        elif is_fd_object(v) and hasattr(v, "__dict__"):
            h.update(type(v).__name__.encode())
            for k, e in sorted(vars(v).items()):
                if k not in CACHE_ATTRS:
                    h.update(k.encode())
                    visit(e)
        else:
            h.update(f"opaque:{type(v).__name__}".encode())

    visit(x)
    return h.hexdigest()


# ==================================================================================
# heap poisoning
# ==================================================================================
def poison(nbytes_list, sentinel):
    """allocate / fill / free float buffers of the given sizes so that the next uninitialised
    allocation of such a size is likely to contain `sentinel`."""
    for _ in range(2):
        blocks = []
        for nb in nbytes_list:
            n = max(1, int(nb) // 8)
            for _ in range(4):
                blocks.append(np.full(n, sentinel, dtype=np.float64))
        del blocks


def poison_selftest():
    """does np.empty hand back a poisoned block on this allocator?  (evidence only)"""
    hits = 0
    for n in (8, 66, 121, 400, 1000):
        poison([8 * n], 3.25)
        a = np.empty(n)
        hits += int(np.any(a == 3.25))
    return hits


def sizes_of(*snaps):
    s = set()
    for sn in snaps:
        for _, n in arrays_of(sn):
            a = np.asarray(n.ref)
            if a.dtype != object:
                s.add(int(a.nbytes))
                if a.ndim >= 2:
                    s.add(int(a[0].nbytes))
                    s.add(int(a.shape[-1] * a.shape[-1] * 8))
    return sorted(x for x in s if 0 < x <= 1 << 22)


# ==================================================================================
# one observed call
# ==================================================================================
class Ctx:
    def __init__(self, rep):
        self.rep = rep
        self.reg = Registry()
        self.records = []          # abstract call records for the Coq model
        self.skipped_env = 0
        self.alias_info = {}
        self.n_calls = 0


def observe(ctx, label, fn, inputs, prev_results=(), info=None, probe=True):
    """Run `fn()` under the snapshot protocol.

    inputs: list of (name, object) — receiver, arguments, user configuration.
    prev_results: list of (name, object) — earlier results that must stay what they were.
    Returns (status, result, problems) with status in {'ok', 'exc:<Type>', 'env'}."""
    reg = ctx.reg
    s_in = snapshot(inputs, reg)
    s_prev = snapshot(list(prev_results), reg)
    watermark = reg.next
    problems = []
    try:
        with warnings.catch_warnings():
            warnings.simplefilter("ignore")
            result = fn()
        status = "ok"
    except ModuleNotFoundError as e:
        if "statsmodels" in str(e):
            ctx.skipped_env += 1
            status, result = "env", None
        else:
            raise
    except Exception as e:  # noqa: BLE001 - an exception must leave the inputs alone as well
        status, result = "exc:" + type(e).__name__, None
    ctx.n_calls += 1
    # ---- writes
    a_in = snapshot(inputs, reg)
    a_prev = snapshot(list(prev_results), reg)
    w_in = diff_snap(s_in, a_in)
    w_prev = diff_snap(s_prev, a_prev)
    for loc, path, kind in w_in:
        problems.append(("write-input", f"{label}: modified its input/configuration at {path}"))
    for loc, path, kind in w_prev:
        if loc not in s_in:
            problems.append(("write-earlier-result", f"{label}: modified an earlier result at {path}"))
    # ---- result footprint, aliasing
    roots, fresh, shared_frozen, alias_locs, extra_roots = [], [], 0, [], []
    if status == "ok" and result is not None:
        s_res = snapshot([("result", result)], reg)
        roots = sorted(s_res)
        fresh = [l for l in roots if l >= watermark]
        for loc, n in s_res.items():
            if loc in s_in:
                if s_in[loc].frozen:
                    shared_frozen += 1
                else:
                    alias_locs.append(loc)
                    problems.append(("alias-input", f"{label}: the result shares {s_in[loc].kind} {s_in[loc].path} with its input"))
            elif loc in s_prev and not s_prev[loc].frozen:
                ctx.alias_info[label.split("(")[0]] = ctx.alias_info.get(label.split("(")[0], 0) + 1
        # overlapping memory of distinct buffers (views handed around in foreign containers)
        in_arr = [(l, n) for l, n in arrays_of(s_in, frozen=False)]
        for lr, nr in arrays_of(s_res):
            if lr in s_in:
                continue
            for li, ni in in_arr:
                if np.asarray(nr.ref).dtype != object and np.asarray(ni.ref).dtype != object and \
                        np.shares_memory(np.asarray(nr.ref), np.asarray(ni.ref)):
                    alias_locs.append(li)
                    extra_roots.append(li)
                    problems.append(("alias-input", f"{label}: result array {nr.path} overlaps input array {ni.path}"))
        # probe mutation: write into the result's own arrays, the inputs must not move
        if probe and not alias_locs:
            saved = []
            for lr, nr in arrays_of(s_res):
                a = np.asarray(nr.ref)
                if lr in s_in or a.dtype == object or not a.flags.writeable or a.size == 0 or a.dtype.kind not in "fiu":
                    continue
                saved.append((a, a.copy()))
                a[...] = a + 1
            if saved:
                moved = diff_snap(a_in, snapshot(inputs, reg))      # relative to the state right after the call
                for a, c in saved:
                    a[...] = c
                for loc, path, kind in moved:
                    extra_roots.append(loc)
                    problems.append(("alias-input", f"{label}: writing into the result changes the input at {path}"))
    rec = {"label": label, "args": sorted(s_in), "frozen": sorted(l for l, n in s_in.items() if n.frozen),
           "writes": sorted({l for l, _, _ in w_in} | {l for l, _, _ in w_prev}), "fresh": fresh,
           "roots": sorted(set(roots) | set(extra_roots)), "shared_frozen": shared_frozen,
           "next": watermark, "prev": sorted(s_prev), "status": status}
    ctx.records.append(rec)
    return status, result, problems, rec


# ==================================================================================
# garbage oracle: np.empty-like allocations hold the sentinel
# ==================================================================================
class _UfuncProxy:
    """`np.<ufunc>` with the model's [garbage]: cells of a fresh output that the `where=` mask
    leaves unwritten hold the sentinel (instead of whatever the allocator recycled)."""

    def __init__(self, uf, sentinel):
        self._uf, self._s = uf, sentinel

    def __getattr__(self, k):
        return getattr(self._uf, k)

    def __call__(self, *args, **kw):
        r = self._uf(*args, **kw)
        wh = kw.get("where", True)
        if wh is not True and kw.get("out", None) is None and isinstance(r, np.ndarray) and r.dtype.kind == "f":
            r[~np.broadcast_to(np.asarray(wh, dtype=bool), r.shape)] = self._s
        return r


class garbage:
    def __init__(self, sentinel, sizes=()):
        self.s, self.sizes, self.saved = sentinel, sizes, {}

    def __enter__(self):
        s = self.s
        for name, obj in list(vars(np).items()):
            if isinstance(obj, np.ufunc):
                self.saved[name] = obj
                setattr(np, name, _UfuncProxy(obj, s))
        oe, oel = np.empty, np.empty_like
        self.saved["empty"], self.saved["empty_like"] = oe, oel

        def empty(shape, dtype=float, *a, **k):
            r = oe(shape, dtype, *a, **k)
            if r.dtype.kind == "f":
                r[...] = s
            return r

        def empty_like(p, dtype=None, *a, **k):
            r = oel(p, dtype, *a, **k)
            if isinstance(r, np.ndarray) and r.dtype.kind == "f":
                r[...] = s
            return r
        np.empty, np.empty_like = empty, empty_like
        poison(self.sizes, s)
        return self

    def __exit__(self, *exc):
        for k, v in self.saved.items():
            setattr(np, k, v)
        return False


def has_sentinel(result, s):
    reg = Registry()
    try:
        for _, n in arrays_of(snapshot([("r", result)], reg)):
            a = np.asarray(n.ref)
            if a.dtype.kind == "f" and np.any(a == s):
                return True
    except Exception:  # noqa: BLE001
        pass
    return False


# ==================================================================================
# data factories
# ==================================================================================
def _grid(rng, m, i):
    return np.linspace(0, 1, m) if i % 2 == 0 else np.sort(np.unique(np.concatenate([[0.0, 1.0], np.round(rng.uniform(0, 1, m - 2) * 64) / 64])))


def make_dense1d(rng, n=6, m=11, zv=True, variant=0):
    t = _grid(rng, m, variant)
    m = len(t)
    X = fd.smooth_curves(rng, n, t, rough=True) + 0.05 * rng.normal(size=(n, m))
    if zv:
        X[:, 0] = 1.25          # all curves coincide: zero variance
        X[:, m // 2] = -0.5
    return fd.dense(t, X)


def make_dense2d(rng, n=5, m1=6, m2=5, zv=True):
    X = rng.normal(size=(n, m1, m2))
    if zv:
        X[:, 0, 0] = 2.0
        X[:, 3, 2] = 0.0
    return fd.dense([np.linspace(0, 1, m1), np.linspace(0, 2, m2)], X)


def make_irregular(rng, n=6, m=11, zv=False):
    t = np.linspace(0, 1, m)
    ts, xs = [], []
    base = fd.smooth_curves(rng, n, t, rough=False)
    for i in range(n):
        ix = np.sort(rng.choice(m, size=int(rng.integers(m - 4, m)), replace=False))
        ts.append(t[ix])
        xs.append(np.full(len(ix), 2.0) if zv else base[i, ix] + 0.05 * rng.normal(size=len(ix)))
    return fd.irregular(ts, xs)


def make_irregular_nan(rng, n=6, m=11):
    """NaN-encoded irregular data on a COMMON grid, exactly as Simulation.sparsify encodes them:
    every curve refers to the same DenseArgvals object and has full-length values with NaN at
    the unobserved points."""
    from FDApy.representation.functional_data import IrregularFunctionalData
    from FDApy.representation.argvals import IrregularArgvals, DenseArgvals
    from FDApy.representation.values import IrregularValues
    t = np.linspace(0, 1, m)
    base = fd.smooth_curves(rng, n, t, rough=False) + 0.05 * rng.normal(size=(n, m))
    common = DenseArgvals({"input_dim_0": t})
    av, va = {}, {}
    for i in range(n):
        val = base[i].copy()
        drop = rng.choice(m, size=int(rng.integers(2, 5)), replace=False)
        val[drop] = np.nan
        av[i], va[i] = common, val
    return IrregularFunctionalData(IrregularArgvals(av), IrregularValues(va))


def make_irregular_disjoint(rng, n=6, m=11):
    """NaN-encoded irregular data in which some pairs of grid points are NEVER observed on the same curve (the first
    grid point only on the first half of the curves, the last one only on the second half): the raw covariance has cells
    with no contribution at all."""
    d = make_irregular_nan(rng, n=n, m=m)
    for i in range(n):
        v = d.values[i]
        v[0 if i >= n // 2 else m - 1] = np.nan
        if i < n // 2 and np.isnan(v[0]):
            v[0] = 0.25 * (i + 1)
        if i >= n // 2 and np.isnan(v[m - 1]):
            v[m - 1] = -0.5 * (i + 1)
    return d


def make_irregular_sparsified(seed):
    """the real sparsifier (seeded): KarhunenLoeve(...).new(); .sparsify()"""
    from FDApy.simulation.karhunen import KarhunenLoeve
    from FDApy.representation.argvals import DenseArgvals
    kl = KarhunenLoeve(basis_name="fourier", n_functions=4, argvals=DenseArgvals({"input_dim_0": np.linspace(0, 1, 13)}),
                       random_state=int(seed) + 160)
    kl.new(n_obs=6)
    kl.sparsify(percentage=0.75, epsilon=0.1)
    return kl.sparse_data


def make_basis(rng, n=6, given=True):
    from FDApy.representation.basis import Basis
    from FDApy.representation.argvals import DenseArgvals
    from FDApy.representation.values import DenseValues
    from FDApy.representation.functional_data import BasisFunctionalData
    t = np.linspace(0, 1, 11)
    if given:   # every basis function vanishes at t = 0: zero variance there, exactly
        vals = np.array([t, t ** 2, np.sin(3 * t), t * (1 - t)])
        b = Basis(name="given", argvals=DenseArgvals({"input_dim_0": t}), values=DenseValues(vals))
        k = 4
    else:
        k = 5
        b = Basis(name="fourier", n_functions=k, argvals=DenseArgvals({"input_dim_0": t}))
    return BasisFunctionalData(basis=b, coefficients=rng.normal(size=(n, k)))


def make_multi(rng, kind):
    n = 6
    a = make_dense1d(rng, n=n, m=11)
    if kind == "multi-dd":
        parts = [a, make_dense1d(rng, n=n, m=9, variant=1)]
    elif kind == "multi-di":
        parts = [a, make_irregular(rng, n=n, m=9)]
    elif kind == "multi-dn":
        parts = [a, make_irregular_nan(rng, n=n, m=9)]
    elif kind == "multi-d2":
        parts = [a, make_dense2d(rng, n=n)]
    else:
        parts = [a, make_basis(rng, n=n, given=False)]
    return fd.multivariate(parts)


DATA_KINDS = ["dense1d", "dense1d-nonuniform", "dense2d", "irregular", "irregular-const", "irregular-nan", "irregular-disjoint",
              "irregular-sparsified",
              "basis-given", "basis-fourier", "multi-dd", "multi-di", "multi-dn", "multi-d2", "multi-db"]


def make_data(kind, seed):
    rng = np.random.default_rng([C.seed(), 16, seed, sum(map(ord, kind))])
    if kind == "dense1d":
        return make_dense1d(rng)
    if kind == "dense1d-nonuniform":
        return make_dense1d(rng, n=5, m=9, variant=1)
    if kind == "dense2d":
        return make_dense2d(rng)
    if kind == "irregular":
        return make_irregular(rng)
    if kind == "irregular-const":
        return make_irregular(rng, zv=True)
    if kind == "irregular-nan":
        return make_irregular_nan(rng)
    if kind == "irregular-disjoint":
        return make_irregular_disjoint(rng)
    if kind == "irregular-sparsified":
        return make_irregular_sparsified(seed)
    if kind == "basis-given":
        return make_basis(rng, given=True)
    if kind == "basis-fourier":
        return make_basis(rng, given=False)
    return make_multi(rng, kind)


# ==================================================================================
# method table
# ==================================================================================
def methods_for(kind, quick):
    """list of (name, short, fn(obj, other) , uses_other).  `short` methods are used in pairs."""
    is_multi = kind.startswith("multi")
    is_basis = kind.startswith("basis")
    is_irr = kind.startswith("irregular")
    is_2d = kind == "dense2d"
    one_d = kind.startswith("dense1d")
    M = []

    def add(name, fn, short=False, other=False):
        M.append((name, short, fn, other))

    add("mean()", lambda o, p: o.mean(), short=True)
    if one_d or is_irr:
        add("mean(method_smoothing='PS')", lambda o, p: o.mean(method_smoothing="PS"))
        add("mean(method_smoothing='LP')", lambda o, p: o.mean(method_smoothing="LP"))
    add("center()", lambda o, p: o.center(), short=True)
    if not is_basis:
        add("center(mean=precomputed)", lambda o, p: o.center(mean=p["mean"]), other="mean")
    add("norm()", lambda o, p: o.norm(), short=True)
    add("norm(squared=True,use_argvals_stand=True)", lambda o, p: o.norm(squared=True, use_argvals_stand=True))
    add("normalize()", lambda o, p: o.normalize(), short=True)
    add("standardize()", lambda o, p: o.standardize(), short=True)
    add("standardize(center=False)", lambda o, p: o.standardize(center=False))
    add("rescale()", lambda o, p: o.rescale(), short=True)
    if not is_multi:
        add("rescale(weights=2.0)", lambda o, p: o.rescale(weights=2.0))
    else:
        # user-supplied weights, 0 = "estimate this one": an array and a list (both are inputs: they stay as given)
        add("rescale(weights=array with zeros)", lambda o, p: o.rescale(weights=p["weights"]), other="weights")
        add("rescale(weights=list with zeros)", lambda o, p: o.rescale(weights=p["weights_list"]), other="weights_list")
    add("inner_product()", lambda o, p: o.inner_product(), short=True)
    if is_multi:
        add("inner_product(noise_variance=zeros)", lambda o, p: o.inner_product(noise_variance=np.zeros(len(o.data))))
    else:
        add("inner_product(noise_variance=0)", lambda o, p: o.inner_product(noise_variance=0))
    add("covariance()", lambda o, p: o.covariance(), short=True)
    if one_d:
        add("covariance(method_smoothing='LP')", lambda o, p: o.covariance(method_smoothing="LP"))
    add("noise_variance()", lambda o, p: o.noise_variance(), short=True)
    add("noise_variance(order=3)", lambda o, p: o.noise_variance(order=3))
    if not is_2d and kind != "multi-d2":
        add("smooth()", lambda o, p: o.smooth(), short=not is_irr or not quick)
        add("smooth(method='PS',penalty=2.0)", lambda o, p: o.smooth(method="PS", penalty=2.0))
    add("smooth(method='LP',bandwidth=0.3)", lambda o, p: o.smooth(method="LP", bandwidth=0.3), short=is_2d)
    if one_d:
        add("smooth(method='LP',bandwidth=50)", lambda o, p: o.smooth(method="LP", bandwidth=50.0))
    add("to_long()", lambda o, p: o.to_long(), short=True)
    if is_basis or is_multi:
        add("to_grid()", lambda o, p: o.to_grid(), short=True)
    if not is_basis and not is_2d and kind != "multi-d2":
        add("to_basis()", lambda o, p: o.to_basis(), short=True)
    add("concatenate(self,other)", lambda o, p: type(o).concatenate(o, p["other"]), short=True, other="other")
    if not is_multi:
        add("self+other", lambda o, p: o + p["other"], short=True, other="other")
        add("self-other", lambda o, p: o - p["other"], other="other")
        add("self*other", lambda o, p: o * p["other"], other="other")
        add("self/other", lambda o, p: o / p["other"], other="other")
        add("self*2.0", lambda o, p: o * 2.0, short=True)
        add("2.0*self", lambda o, p: 2.0 * o)
        add("self/2.0", lambda o, p: o / 2.0)
        add("self//2.0", lambda o, p: o // 2.0)
        add("self+1", lambda o, p: o + 1)
        add("self-0.5", lambda o, p: o - 0.5)
    return M


def aux_for(kind, obj, seed, need):
    """extra arguments: another object of the same kind / a precomputed mean.  They are inputs."""
    if need == "other":
        other = make_data(kind, seed)          # same sampling points, same sizes
        if hasattr(other, "values") and isinstance(other.values, np.ndarray):
            other.values[...] = other.values * 0.5 + 1.0
        return {"other": other}
    if need in ("weights", "weights_list"):
        w = np.zeros(len(obj.data))
        if len(w) > 1:
            w[-1] = 2.5
        return {need: w if need == "weights" else [float(v) for v in w]}
    if need == "mean":
        with warnings.catch_warnings():
            warnings.simplefilter("ignore")
            try:
                m = make_data(kind, seed).mean()
            except Exception:  # noqa: BLE001 - no default mean for this kind (e.g. irregular component): no such variant
                return None
        return {"mean": m}
    return {}


# ==================================================================================
# scenarios
# ==================================================================================
class Scenario:
    """one history of observed calls with its own registry; collects problems"""

    def __init__(self, ctx, key):
        self.ctx, self.key = ctx, key
        self.reg = Registry()
        self.records, self.problems = [], []

    def observe(self, label, fn, inputs, prev=(), probe=True):
        sub = Ctx(self.ctx.rep)
        sub.reg = self.reg
        st, res, problems, rec = observe(sub, label, fn, inputs, prev, probe=probe)
        self.ctx.skipped_env += sub.skipped_env
        self.ctx.n_calls += 1
        for k, v in sub.alias_info.items():
            self.ctx.alias_info[k] = self.ctx.alias_info.get(k, 0) + v
        self.records.append(rec)
        self.problems += problems
        return st, res

    def term(self):
        """order-preserving renumbering of the locations, then the Coq term of the history"""
        locs = set()
        for r in self.records:
            for k in ("args", "frozen", "writes", "fresh", "roots"):
                locs.update(r[k])
        order = sorted(locs)
        rank = {l: i for i, l in enumerate(order)}
        import bisect as _b

        def nl(xs):
            return "[" + "; ".join(str(rank[x]) for x in xs) + "]"
        fz = sorted({x for r in self.records for x in r["frozen"]})
        calls = []
        for r in self.records:
            wm = _b.bisect_left(order, r["next"])
            calls.append(f"({wm}, obs_call {nl(r['args'])} {nl(r['writes'])} {nl(r['fresh'])} {nl(r['roots'])})")
        return f"({nl(fz)}, [{'; '.join(calls)}])"


def with_garbage(sentinel, sizes, fn):
    def run():
        with garbage(sentinel, sizes):
            return fn()
    return run


def single_call(ctx, kind, seed, name, fn, need):
    """call twice on the same objects (sentinels 1e300 / -7.25), snapshots around each call."""
    obj = make_data(kind, seed)
    aux = aux_for(kind, obj, seed + 1000, need) if need else {}
    if aux is None:
        return None, "skipped"
    sc = Scenario(ctx, (kind, name))
    inputs = [("self", obj)] + [(k, v) for k, v in aux.items()]
    sizes = sizes_of(snapshot(inputs, Registry()))
    label = f"{kind}.{name}"
    st1, r1 = sc.observe(label, with_garbage(SENTINELS[0], sizes, lambda: fn(obj, aux)), inputs)
    st2, r2 = sc.observe(label + " [repeat]", with_garbage(SENTINELS[1], sizes, lambda: fn(obj, aux)), inputs,
                         prev=[("first result", r1)] if r1 is not None else [])
    if st1 != st2:
        sc.problems.append(("repeat", f"{label}: first call {st1}, repeated call {st2}"))
    elif st1 == "ok" and result_bytes(r1) != result_bytes(r2):
        with warnings.catch_warnings():
            warnings.simplefilter("ignore")
            try:
                with garbage(SENTINELS[0], sizes):
                    r3 = fn(obj, aux)
                again = result_bytes(r3) == result_bytes(r1)
            except Exception:  # noqa: BLE001
                again = False
        seen = has_sentinel(r1, SENTINELS[0]) or has_sentinel(r2, SENTINELS[1])
        if again or seen:
            sc.problems.append(("garbage", f"{label}: the result depends on uninitialised memory "
                                           f"(differs between sentinels {SENTINELS[0]} and {SENTINELS[1]}"
                                           f"{', sentinel visible in the result' if seen else ''})"))
        else:
            sc.problems.append(("repeat", f"{label}: repeating the call gives a different result"))
    elif st1 == "ok" and (has_sentinel(r1, SENTINELS[0]) or has_sentinel(r2, SENTINELS[1])):
        sc.problems.append(("garbage", f"{label}: a sentinel of the uninitialised memory is visible in the result"))
    return sc, st1


def pair_call(ctx, kind, seed, a, b, on_result):
    """A; snapshot; B; compare inputs and A's result.  B runs on the input, or on A's result."""
    (na, _, fa, needa), (nb, _, fb, needb) = a, b
    obj = make_data(kind, seed)
    auxa = aux_for(kind, obj, seed + 1000, needa) if needa else {}
    auxb = aux_for(kind, obj, seed + 2000, needb) if needb else {}
    if auxa is None or auxb is None:
        return None
    sc = Scenario(ctx, (kind, na, nb, on_result))
    inputs = [("self", obj)] + [(f"A.{k}", v) for k, v in auxa.items()] + [(f"B.{k}", v) for k, v in auxb.items()]
    la = f"{kind}.{na}"
    st, ra = sc.observe(la, lambda: fa(obj, auxa), inputs, probe=False)
    if st != "ok" or ra is None:
        return None
    target = obj
    if on_result:
        target = ra[0] if isinstance(ra, tuple) else ra
        if type(target) is not type(obj):
            return None
    lb = f"{kind}.{na}; {'result' if on_result else 'self'}.{nb}"
    sc.observe(lb, lambda: fb(target, auxb), inputs + ([("A result", ra)] if on_result else []),
               prev=[("result of " + na, ra)], probe=False)
    return sc


# ==================================================================================
# estimators
# ==================================================================================
def collect(est, names):
    out = {}
    for k in names:
        try:
            out[k] = getattr(est, k)
        except Exception:  # noqa: BLE001
            pass
    return out


class Seq:
    """helper: a history of calls on one estimator, alternating sentinels, with refit / repeat checks"""

    def __init__(self, ctx, key, inputs):
        self.sc = Scenario(ctx, key)
        self.inputs = list(inputs)
        self.prev = []
        self.i = 0
        self.sizes = sizes_of(snapshot(self.inputs, Registry()))

    def call(self, label, fn, extra_inputs=(), keep=True):
        s = SENTINELS[self.i % 2]
        self.i += 1
        st, res = self.sc.observe(label, with_garbage(s, self.sizes, fn), self.inputs + list(extra_inputs), prev=self.prev)
        if st == "ok" and res is not None:
            if has_sentinel(res, s):
                self.sc.problems.append(("garbage", f"{label}: a sentinel of the uninitialised memory is visible in the result"))
            if keep:
                self.prev.append((f"result of {label}", res))
        return st, res

    def same(self, what, a, b):
        if a is None or b is None:
            return
        if result_bytes(a) != result_bytes(b):
            self.sc.problems.append(("repeat", f"{what}: results differ bitwise"))

    def history(self, tag, fit_a, fit_b, fresh_fit_b, first_a):
        """fit(A) [done: first_a]; fit(B); fit(A): the second fit(A) must equal the first, and fit(B)
        on the used estimator must equal fit(B) on a fresh estimator built from the same arguments."""
        stb, fb = self.call(f"{tag}.fit(B) [after fit(A)]", fit_b)
        try:
            with warnings.catch_warnings():
                warnings.simplefilter("ignore")
                fb0, st0 = fresh_fit_b(), "ok"
        except ModuleNotFoundError:
            fb0, st0 = None, "env"
        except Exception as e:  # noqa: BLE001
            fb0, st0 = None, "exc:" + type(e).__name__
        if stb != st0 and "env" not in (stb, st0):
            self.sc.problems.append(("history", f"{tag}.fit(B) [after fit(A)]: {stb} on the used estimator, {st0} on a fresh estimator "
                                                f"with the same constructor arguments"))
        elif stb == "ok" and st0 == "ok" and result_bytes(fb) != result_bytes(fb0):
            self.sc.problems.append(("history", f"{tag}.fit(B) [after fit(A)]: result differs from fit(B) on a fresh estimator"))
        sta, fa2 = self.call(f"{tag}.fit(A) [after fit(A); fit(B)]", fit_a)
        if first_a is not None and sta == "ok":
            self.same(f"{tag}: fit(A); fit(B); fit(A) — second fit(A) vs first", first_a, fa2)
        elif first_a is not None and sta != "ok":
            self.sc.problems.append(("history", f"{tag}.fit(A) [after fit(A); fit(B)]: {sta}, the first fit(A) succeeded"))


def pen(m):
    d = np.diff(np.identity(m))
    return d @ d.T


def est_ufpca(ctx, seed, method, normalize, ncomp, variant):
    from FDApy.preprocessing.dim_reduction.ufpca import UFPCA
    from FDApy.representation.argvals import DenseArgvals
    kind = "dense1d" if variant != "2d" else "dense2d"
    data = make_data(kind, seed)
    est = UFPCA(method=method, n_components=ncomp, normalize=normalize)
    kw = {}
    cfg = []
    if variant == "points":
        pts = DenseArgvals({"input_dim_0": np.array(data.argvals["input_dim_0"], dtype=float).copy()})
        kmean = {"penalty": 1.0}
        kw = dict(points=pts, method_smoothing="PS", kwargs_mean=kmean)
        cfg = [("points", pts), ("kwargs_mean", kmean)]
    names = ["eigenvalues", "eigenfunctions", "mean", "covariance"]
    data_b = make_data("dense1d-nonuniform" if kind == "dense1d" else "dense2d", seed + 5)
    q = Seq(ctx, ("UFPCA", method, normalize, ncomp, variant),
            [("data", data), ("data B", data_b), ("estimator configuration", ConfigView(est))] + cfg)
    tag = f"UFPCA({method},n_components={ncomp},normalize={normalize},{variant})"

    def fit():
        est.fit(data, **kw)
        return collect(est, names)
    st, f1 = q.call(tag + ".fit", fit)
    if st != "ok":
        return q.sc
    tm = ["NumInt", "PACE"] + (["InnPro"] if method == "inner-product" else [])
    first = {}
    for m in tm:
        if m == "PACE" and kind == "dense2d":
            continue
        if m != "InnPro":
            _, first[m] = q.call(f"{tag}.transform(data,{m})", lambda m=m: est.transform(data, method=m))
        _, first[m + "/None"] = q.call(f"{tag}.transform(None,{m})", lambda m=m: est.transform(None, method=m))
        # ... and once more straight away (no refit in between): the same scores, and the first result is left alone
        _, again = q.call(f"{tag}.transform(None,{m}) [repeat]", lambda m=m: est.transform(None, method=m))
        if first[m + "/None"] is not None and again is not None:
            q.same(f"{tag}.transform(None,{m}) repeated", first[m + "/None"], again)
    sc0 = first.get("NumInt")
    if sc0 is not None:
        scores = np.array(sc0, dtype=float).copy()
        _, inv1 = q.call(f"{tag}.inverse_transform", lambda: est.inverse_transform(scores), extra_inputs=[("scores", scores)])
        _, inv2 = q.call(f"{tag}.inverse_transform [repeat]", lambda: est.inverse_transform(scores), extra_inputs=[("scores", scores)])
        q.same(f"{tag}.inverse_transform repeated", inv1, inv2)
    st, f2 = q.call(tag + ".fit [refit]", fit)
    q.same(f"{tag}: refit on the same data", f1, f2)
    for m, r in list(first.items()):
        if r is None:
            continue
        if m.endswith("/None"):
            _, r2 = q.call(f"{tag}.transform(None,{m[:-5]}) [after refit]", lambda m=m: est.transform(None, method=m[:-5]))
        else:
            _, r2 = q.call(f"{tag}.transform(data,{m}) [after refit]", lambda m=m: est.transform(data, method=m))
        q.same(f"{tag}.transform({m}) repeated after refit", r, r2)

    def fit_b(e=None):
        e = est if e is None else e
        e.fit(data_b)
        return collect(e, names)
    q.history(tag, fit, fit_b, lambda: fit_b(UFPCA(method=method, n_components=ncomp, normalize=normalize)), f1 if not kw else None)
    return q.sc


def est_mfpca(ctx, seed, method, normalize, kind, uni, user_weights=False):
    from FDApy.preprocessing.dim_reduction.mfpca import MFPCA
    data = make_data(kind, seed)
    nfun = len(data.data)
    if uni == "UFPCA":
        ue = [{"method": "UFPCA", "n_components": 3} for _ in range(nfun)]
    elif uni == "UFPCA-default":
        ue = [{"method": "UFPCA"} for _ in range(nfun)]
    else:
        ue = [{"method": "PSplines", "n_components": 4, "penalty": 1.0} for _ in range(nfun)]
    weights = np.array([1.0, 2.0]) if user_weights else None
    est = MFPCA(n_components=2, method=method, univariate_expansions=ue, weights=weights, normalize=normalize)
    data_b = make_data(kind, seed + 5)
    names = ["eigenvalues", "eigenfunctions", "mean", "covariance"]
    q = Seq(ctx, ("MFPCA", method, normalize, kind, uni, user_weights),
            [("data", data), ("data B", data_b), ("univariate_expansions", ue), ("estimator configuration", ConfigView(est))]
            + ([("weights", weights)] if user_weights else []))
    tag = f"MFPCA({method},normalize={normalize},{kind},{uni},weights={'[1,2]' if user_weights else None})"

    def fit():
        est.fit(data)
        return collect(est, names)
    st, f1 = q.call(tag + ".fit", fit)
    if st != "ok":
        return q.sc
    first = {}
    for m in ["NumInt", "PACE"] + (["InnPro"] if method == "inner-product" else []):
        if m != "InnPro":
            _, first[m] = q.call(f"{tag}.transform(data,{m})", lambda m=m: est.transform(data, method=m))
        _, first[m + "/None"] = q.call(f"{tag}.transform(None,{m})", lambda m=m: est.transform(None, method=m))
        _, again = q.call(f"{tag}.transform(None,{m}) [repeat]", lambda m=m: est.transform(None, method=m))
        if first[m + "/None"] is not None and again is not None:
            q.same(f"{tag}.transform(None,{m}) repeated", first[m + "/None"], again)
    if first.get("NumInt/None") is not None:
        # stored-data scores, then the scores of OTHER data, then the stored-data scores again: the third call repeats the first
        stb, _ = q.call(f"{tag}.transform(data B,NumInt)", lambda: est.transform(data_b, method="NumInt"))
        _, third = q.call(f"{tag}.transform(None,NumInt) [after transform(data B)]", lambda: est.transform(None, method="NumInt"))
        if third is not None:
            q.same(f"{tag}.transform(None,NumInt) repeated after the scores of another dataset were asked", first["NumInt/None"], third)
    if first.get("NumInt") is not None:
        scores = np.array(first["NumInt"], dtype=float).copy()
        _, inv1 = q.call(f"{tag}.inverse_transform", lambda: est.inverse_transform(scores), extra_inputs=[("scores", scores)])
        _, inv2 = q.call(f"{tag}.inverse_transform [repeat]", lambda: est.inverse_transform(scores), extra_inputs=[("scores", scores)])
        q.same(f"{tag}.inverse_transform repeated", inv1, inv2)
    st, f2 = q.call(tag + ".fit [refit]", fit)
    q.same(f"{tag}: refit on the same data", f1, f2)
    for m, r in list(first.items()):
        if r is None or m.endswith("/None"):
            continue
        _, r2 = q.call(f"{tag}.transform(data,{m}) [after refit]", lambda m=m: est.transform(data, method=m))
        q.same(f"{tag}.transform({m}) repeated after refit", r, r2)

    def fit_b(e=None):
        e = est if e is None else e
        e.fit(data_b)
        return collect(e, names)
    q.history(tag, fit, fit_b,
              lambda: fit_b(MFPCA(n_components=2, method=method, univariate_expansions=copy.deepcopy(ue),
                                  weights=None if weights is None else np.array([1.0, 2.0]), normalize=normalize)), f1)
    return q.sc


def est_fcptpa(ctx, seed, normalize, ncomp):
    from FDApy.preprocessing.dim_reduction.fcp_tpa import FCPTPA
    data = make_data("dense2d", seed)
    m1, m2 = data.values.shape[1:]
    pm = {"v": pen(m1), "w": pen(m2)}
    ar = {"v": (1e-2, 1e2), "w": (1e-3, 1e3)}
    est = FCPTPA(n_components=ncomp, normalize=normalize)
    data_b = make_dense2d(np.random.default_rng([C.seed(), 16, seed, 5]), n=4, m1=5, m2=4)
    pm_b = {"v": pen(5), "w": pen(4)}
    q = Seq(ctx, ("FCPTPA", normalize, ncomp), [("data", data), ("data B", data_b), ("penalty_matrices", pm), ("penalty_matrices B", pm_b),
                                                ("alpha_range", ar), ("estimator configuration", ConfigView(est))])
    tag = f"FCPTPA(n_components={ncomp},normalize={normalize})"

    def fit():
        np.random.seed(1234)
        est.fit(data, pm, ar, tolerance=1e-4, max_iteration=10, adapt_tolerance=True)
        return collect(est, ["eigenvalues", "eigenfunctions"])
    st, f1 = q.call(tag + ".fit", fit)
    if st != "ok":
        return q.sc
    _, t1 = q.call(tag + ".transform(data,NumInt)", lambda: est.transform(data))
    _, t2 = q.call(tag + ".transform(data,FCPTPA)", lambda: est.transform(data, method="FCPTPA"))
    scores = np.array(t2, dtype=float).copy()
    _, i1 = q.call(tag + ".inverse_transform", lambda: est.inverse_transform(scores), extra_inputs=[("scores", scores)])
    st, f2 = q.call(tag + ".fit [refit, same seed]", fit)
    q.same(f"{tag}: refit under the same global seed", f1, f2)
    _, t1b = q.call(tag + ".transform(data,NumInt) [after refit]", lambda: est.transform(data))
    _, t2b = q.call(tag + ".transform(data,FCPTPA) [after refit]", lambda: est.transform(data, method="FCPTPA"))
    q.same(f"{tag}.transform(NumInt) repeated after refit", t1, t1b)
    q.same(f"{tag}.transform(FCPTPA) repeated after refit", t2, t2b)
    _, i2 = q.call(tag + ".inverse_transform [repeat]", lambda: est.inverse_transform(scores), extra_inputs=[("scores", scores)])
    q.same(f"{tag}.inverse_transform repeated", i1, i2)

    def fit_b(e=None):
        e = est if e is None else e
        np.random.seed(4321)
        e.fit(data_b, pm_b, ar, tolerance=1e-4, max_iteration=10, adapt_tolerance=True)
        return collect(e, ["eigenvalues", "eigenfunctions"])
    q.history(tag, fit, fit_b, lambda: fit_b(FCPTPA(n_components=ncomp, normalize=normalize)), f1)
    return q.sc


def est_psplines(ctx, seed, dim, weighted):
    from FDApy.preprocessing.smoothing.psplines import PSplines
    rng = np.random.default_rng([C.seed(), 16, seed, 77])
    if dim == 1:
        x = np.linspace(0, 1, 15)
        y = np.sin(4 * x) + 0.1 * rng.normal(size=15)
        est = PSplines(n_segments=6, degree=3)
        pen_ = 1.5
        xn = np.linspace(0.1, 0.9, 7)
        w = rng.uniform(0.5, 2, size=15) if weighted else None
    else:
        x = [np.linspace(0, 1, 7), np.linspace(0, 2, 6)]
        y = rng.normal(size=(7, 6))
        est = PSplines(n_segments=np.array([3, 3]), degree=np.array([2, 2]))
        pen_ = (1.0, 2.0)
        xn = [np.linspace(0.1, 0.9, 4), np.linspace(0.2, 1.8, 5)]
        w = rng.uniform(0.5, 2, size=(7, 6)) if weighted else None
    # data B of the OTHER dimension: a fit must not leave the estimator specialised to a dimension
    if dim == 1:
        xb, yb, pen_b = [np.linspace(0, 1, 7), np.linspace(0, 2, 6)], rng.normal(size=(7, 6)), (1.0, 2.0)
        fresh = lambda: PSplines(n_segments=6, degree=3)  # noqa: E731
    else:
        xb, yb, pen_b = np.linspace(0, 1, 15), np.sin(4 * np.linspace(0, 1, 15)), 1.5
        fresh = lambda: PSplines(n_segments=np.array([3, 3]), degree=np.array([2, 2]))  # noqa: E731
    inputs = [("y", y), ("x", x), ("penalty", pen_), ("x_new", xn), ("y B", yb), ("x B", xb), ("estimator configuration", ConfigView(est))] \
        + ([("sample_weights", w)] if weighted else [])
    q = Seq(ctx, ("PSplines", dim, weighted), inputs)
    tag = f"PSplines(dim={dim},weighted={weighted})"

    def fit():
        est.fit(y, x, sample_weights=w, penalty=pen_)
        return collect(est, ["y_hat", "beta_hat", "diagnostics"])
    st, f1 = q.call(tag + ".fit", fit)
    if st != "ok":
        return q.sc
    _, p1 = q.call(tag + ".predict()", lambda: est.predict())
    _, p2 = q.call(tag + ".predict(x_new)", lambda: est.predict(xn))
    st, f2 = q.call(tag + ".fit [refit]", fit)
    q.same(f"{tag}: refit on the same data", f1, f2)
    _, p1b = q.call(tag + ".predict() [after refit]", lambda: est.predict())
    _, p2b = q.call(tag + ".predict(x_new) [after refit]", lambda: est.predict(xn))
    q.same(f"{tag}.predict() repeated", p1, p1b)
    q.same(f"{tag}.predict(x_new) repeated", p2, p2b)

    def fit_b(e=None):
        e = est if e is None else e
        e.fit(yb, xb, penalty=pen_b)
        return collect(e, ["y_hat", "beta_hat", "diagnostics"])
    q.history(tag, fit, fit_b, lambda: fit_b(fresh()), f1)
    return q.sc


def est_lp(ctx, seed, kernel, degree, robust, dim):
    from FDApy.preprocessing.smoothing.local_polynomial import LocalPolynomial
    rng = np.random.default_rng([C.seed(), 16, seed, 78])
    if dim == 1:
        x = np.linspace(0, 1, 15)
        y = np.cos(3 * x) + 0.1 * rng.normal(size=15)
        xn = np.linspace(0.05, 0.95, 6)
    else:
        g = np.linspace(0, 1, 5)
        x = np.array(np.meshgrid(g, g)).reshape(2, -1).T.copy()
        y = rng.normal(size=25)
        xn = np.array(np.meshgrid(g[:3], g[:3])).reshape(2, -1).T.copy()
    est = LocalPolynomial(kernel_name=kernel, bandwidth=0.4, degree=degree, robust=robust)
    yb, xb = np.sin(5 * np.linspace(0, 2, 12)), np.linspace(0, 2, 12)
    q = Seq(ctx, ("LocalPolynomial", kernel, degree, robust, dim),
            [("y", y), ("x", x), ("x_new", xn), ("y B", yb), ("x B", xb), ("estimator configuration", ConfigView(est))])
    tag = f"LocalPolynomial({kernel},degree={degree},robust={robust},dim={dim})"
    _, p1 = q.call(tag + ".predict(y,x)", lambda: est.predict(y, x))
    _, p2 = q.call(tag + ".predict(y,x,x_new)", lambda: est.predict(y, x, xn))
    _, p1b = q.call(tag + ".predict(y,x) [repeat]", lambda: est.predict(y, x))
    _, p2b = q.call(tag + ".predict(y,x,x_new) [repeat]", lambda: est.predict(y, x, xn))
    q.same(f"{tag}.predict(y,x) repeated", p1, p1b)
    q.same(f"{tag}.predict(y,x,x_new) repeated", p2, p2b)
    q.history(tag.replace(")", ",predict as fit)"), lambda: est.predict(y, x), lambda: est.predict(yb, xb),
              lambda: LocalPolynomial(kernel_name=kernel, bandwidth=0.4, degree=degree, robust=robust).predict(yb, xb), p1)
    return q.sc


def estimator_scenarios(ctx, quick):
    out = []
    for method in ("covariance", "inner-product"):
        for normalize in (False, True):
            for ncomp, variant in ((2, "plain"), (0.9, "plain"), (None, "plain"), (2, "points"), (None, "points")) + \
                    (((2, "2d"), (None, "2d"), (0.9, "2d")) if method == "inner-product" else ()):
                if quick and variant == "points" and method == "covariance" and (normalize or ncomp is None):
                    continue      # the smoothed covariance route costs ~6 s per history: one in the quick tier
                out.append(("UFPCA", lambda m=method, nz=normalize, k=ncomp, v=variant: est_ufpca(ctx, 3, m, nz, k, v)))
    for method in ("covariance", "inner-product"):
        for normalize in (False, True):
            for kind, uni in (("multi-dd", "UFPCA"), ("multi-dd", "UFPCA-default"), ("multi-dd", "PSplines"), ("multi-d2", "UFPCA")):
                if kind == "multi-d2" and (method == "covariance" or quick):
                    continue          # 2-D univariate expansions take ~30 s each: thorough tier only
                out.append(("MFPCA", lambda m=method, nz=normalize, kd=kind, u=uni: est_mfpca(ctx, 5, m, nz, kd, u)))
            out.append(("MFPCA", lambda m=method, nz=normalize: est_mfpca(ctx, 5, m, nz, "multi-dd", "UFPCA", user_weights=True)))
    for normalize in (False, True):
        for ncomp in (1, 3):
            out.append(("FCPTPA", lambda nz=normalize, k=ncomp: est_fcptpa(ctx, 7, nz, k)))
    for dim in (1, 2):
        for weighted in (False, True):
            out.append(("PSplines", lambda d=dim, w=weighted: est_psplines(ctx, 9, d, w)))
    for kernel in ("epanechnikov", "gaussian"):
        for degree in (0, 1, 2):
            for robust in (False, True):
                out.append(("LocalPolynomial", lambda k=kernel, dg=degree, r=robust: est_lp(ctx, 11, k, dg, r, 1)))
    out.append(("LocalPolynomial", lambda: est_lp(ctx, 11, "epanechnikov", 1, False, 2)))
    return out


# ==================================================================================
# candidate findings (proposed ids; none is listed in known_findings.json, so Report.finish turns
# each into a VIOLATION "unlisted finding ..." until it is repaired or listed).  A problem is
# attributed to a candidate only if it has exactly that shape; anything else is a plain violation.
# ==================================================================================
CANDIDATES = {
    "F-C16-basis-standardize-garbage":
        "BasisFunctionalData.standardize: np.divide(fdata.basis.values, std, where=(std != 0)) has no out=: the basis values of the "
        "result are uninitialised memory at zero-variance points (e.g. a 'given' basis whose functions all vanish at t=0)",
    "F-C16-alias-basis-standardize-nocenter":
        "BasisFunctionalData.standardize(center=False) returns an object whose coefficients array IS the input's coefficients array",
    "F-C16-alias-irregular-concatenate":
        "IrregularFunctionalData.concatenate(a, b) (and MultivariateFunctionalData.concatenate with an irregular component) puts the "
        "inputs' own per-observation value arrays into the result",
    "F-C16-alias-multivariate-passthrough":
        "MultivariateFunctionalData.to_grid() / to_basis() return the input's own component objects for components that already "
        "have the target representation (result[i] is data[i])",
}


CANDIDATES.update({
    "F-C16-mfpca-weights-overwritten":
        "MFPCA(..., normalize=True).fit stores the estimated rescaling weights in the CONFIGURATION attribute `weights` "
        "(est.weights / est._weights): a user-supplied weights=np.array([1., 2.]) — or None — is silently replaced "
        "(e.g. by [3.01, 0.67]); the user's array object itself is untouched",
    "F-C16-psplines-config-promotion":
        "PSplines(n_segments=6, degree=3).fit on 1-D data rebinds the integer configuration to arrays of length 1; a later "
        "fit of the SAME estimator on 2-D data raises ValueError (cannot reshape ...), whereas a fresh PSplines(6, 3) fits "
        "the 2-D data (after a first 2-D fit the arrays have length 2 and 1-D fits still work)",
})


def _last_call(msg):
    return msg.split(": ")[0].split("; ")[-1]


def classify(cat, msg):
    last = _last_call(msg)
    head = msg.split(": ")[0]
    if cat == "write-input" and head.startswith("MFPCA(") and "normalize=True" in head and head.endswith(".fit") \
            or (cat == "write-input" and head.startswith("MFPCA(") and "normalize=True" in head and ".fit" in head
                and "estimator configuration" in msg and "weights" in msg.split(" at ")[-1]):
        if "estimator configuration" in msg and "weights" in msg.split(" at ")[-1]:
            return "F-C16-mfpca-weights-overwritten"
    if cat == "history" and head.startswith("PSplines(dim=1") and "exc:ValueError on the used estimator, ok on a fresh estimator" in msg:
        return "F-C16-psplines-config-promotion"
    if cat == "garbage" and "standardize(" in last and ("basis-" in msg.split(": ")[0]):
        return "F-C16-basis-standardize-garbage"
    if cat == "alias-input":
        if "standardize(center=False)" in last and "coefficients" in msg and "basis" not in msg.split("shares")[-1]:
            return "F-C16-alias-basis-standardize-nocenter"
        if "concatenate(self,other)" in last and "_values[" in msg and ("irregular" in msg.split(": ")[0] or "multi-di" in msg.split(": ")[0]):
            return "F-C16-alias-irregular-concatenate"
        if ("to_grid()" in last or "to_basis()" in last) and msg.split(": ")[0].startswith("multi"):
            return "F-C16-alias-multivariate-passthrough"
    return None


def normalise(msg):
    import re
    head, _, tail = msg.partition(": ")
    first = head.split("; ")[0]
    cls = first.split(".")[0].split("-")[0] if "(" not in first.split(".")[0] else first.split("(")[0]
    meth = _last_call(msg).replace(" [repeat]", "").split(".", 1)[-1]
    return f"{cls}.{meth}: " + re.sub(r"\[[^\]]*\]", "[]", tail)


# ==================================================================================
# driver
# ==================================================================================
def report(rep, ctx, scenarios):
    """Coq verdict on the observed histories + direct monitors -> violations."""
    run = C.CoqRun("C16", IMPORTS, shard=4)
    batch = 25
    groups = [scenarios[i:i + batch] for i in range(0, len(scenarios), batch)]
    idx = [run.add("scenarios_ok [" + "; ".join(sc.term() for sc, _ in g) + "]%nat") for g in groups]
    res = run.run()
    seen = set()
    for g, t in zip(groups, idx):
        for sc, meta in g:
            frame = [p for p in sc.problems if p[0] in ("write-input", "write-earlier-result", "alias-input")]
            other = [p for p in sc.problems if p[0] not in ("write-input", "write-earlier-result", "alias-input")]
            if not res[t] and not any(p[0] in ("write-input", "write-earlier-result", "alias-input")
                                      for s2, _ in g for p in s2.problems):
                # the model rejects a history on which the direct monitors saw nothing: evaluate alone
                one = C.CoqRun("C16", IMPORTS)
                j = one.add(f"scenario_report (fst {sc.term()}%nat) [] 0%nat (snd {sc.term()}%nat)")
                out = one.run(kind="raw")[j]
                if out.strip() not in ("[]", "nil"):
                    rep.disagreements_checked += 1
                    rep.violation(f"the heap model rejects the observed history {sc.key}: {out}", {**meta, "records": sc.records}, no_input=True)
            for cat, msg in frame + other:
                rep.disagreements_checked += 1
                fid = classify(cat, msg)
                if fid is not None:
                    rep.known_finding(fid, CANDIDATES[fid], {**meta, "category": cat, "observed": msg})
                    continue
                key = (cat, normalise(msg))
                if key in seen:
                    continue
                seen.add(key)
                what = {"write-input": "input/configuration modified", "write-earlier-result": "earlier result modified",
                        "alias-input": "result aliases mutable input state", "garbage": "uninitialised memory",
                        "repeat": "not repeatable", "history": "result depends on the estimator's history"}[cat]
                rep.violation(f"{what}: {msg}", {**meta, "category": cat, "frame_condition_holds(Coq)": bool(res[t]) if not frame else False})
    # consistency: a batch the model accepts must not contain frame problems seen by the monitors
    for g, t in zip(groups, idx):
        if res[t] and any(p[0] in ("write-input", "write-earlier-result", "alias-input") for s2, _ in g for p in s2.problems):
            rep.violation("direct monitors saw a write/alias that the abstracted call records do not show (harness inconsistency)",
                          {"scenarios": [repr(s2.key) for s2, _ in g]}, no_input=True)


def data_scenarios(ctx, rep, quick):
    scs = []
    for kind in DATA_KINDS:
        M = methods_for(kind, quick)
        for name, short, fn, need in M:
            try:
                sc, st = single_call(ctx, kind, 1, name, fn, need)
            except Exception as e:  # noqa: BLE001
                rep.violation(f"harness could not observe {kind}.{name}: {type(e).__name__}: {e}", {"kind": kind, "method": name}, no_input=True)
                continue
            if sc is None:
                continue
            meta = {"scenario": "single", "kind": kind, "method": name, "seed": 1}
            scs.append((sc, meta))
            rep.case(("single", kind, name), nontrivial=(st == "ok"), kind=f"single/{kind.split('-')[0]}",
                     sample={"scenario": "single call twice", "data": kind, "method": name, "status": st})
        S = [m for m in M if m[1]]
        if quick and kind in ("dense1d-nonuniform", "basis-fourier", "multi-d2", "irregular-const"):
            continue          # pairs on the sibling kind of the same class cover these in the quick tier
        for a in S:
            for b in S:
                for on_result in (False, True):
                    if on_result and quick and (b[0] not in ON_RESULT_B or
                                                (kind.startswith("irregular") and a[0] not in ("center()", "normalize()", "standardize()"))):
                        continue
                    try:
                        sc = pair_call(ctx, kind, 2, a, b, on_result)
                    except Exception as e:  # noqa: BLE001
                        rep.violation(f"harness could not observe the pair {kind}.{a[0]};{b[0]}: {type(e).__name__}: {e}",
                                      {"kind": kind, "A": a[0], "B": b[0]}, no_input=True)
                        continue
                    if sc is None:
                        continue
                    meta = {"scenario": "pair", "kind": kind, "A": a[0], "B": b[0], "B_on_result_of_A": on_result, "seed": 2}
                    scs.append((sc, meta))
                    rep.case(("pair", kind, a[0], b[0], on_result), kind=f"pair/{kind.split('-')[0]}",
                             sample={"scenario": "A; snapshot; B", "data": kind, "A": a[0], "B": b[0], "B on A's result": on_result})
    return scs


def run(rep, props, replay=None):
    quick = C.tier() == "quick"
    ctx = Ctx(rep)
    if replay is not None:
        return replay_case(rep, ctx, replay)
    rep.extra["poison_selftest_hits(of 5)"] = poison_selftest()
    scs = data_scenarios(ctx, rep, quick)
    for name, mk in estimator_scenarios(ctx, quick):
        try:
            sc = mk()
        except Exception as e:  # noqa: BLE001
            import traceback
            rep.violation(f"harness could not run the {name} scenario: {type(e).__name__}: {e}",
                          {"estimator": name, "traceback": traceback.format_exc()[-1500:]}, no_input=True)
            continue
        meta = {"scenario": "estimator", "key": [str(k) for k in sc.key]}
        scs.append((sc, meta))
        ok = sum(1 for r in sc.records if r["status"] == "ok")
        rep.case(("estimator",) + tuple(map(str, sc.key)), nontrivial=ok > 0, kind=f"estimator/{name}",
                 sample={"scenario": "estimator history", "key": [str(k) for k in sc.key], "calls": [r["label"] + " -> " + r["status"] for r in sc.records][:6]})
    report(rep, ctx, scs)
    rep.extra["observed_calls"] = ctx.n_calls
    rep.extra["skipped_statsmodels"] = ctx.skipped_env
    rep.extra["results_sharing_state_with_earlier_results(info)"] = ctx.alias_info
    rep.extra["shared_frozen_locations(info)"] = sum(r.get("shared_frozen", 0) for sc, _ in scs for r in sc.records)
    if ctx.skipped_env:
        rep.notes.append(f"{ctx.skipped_env} calls raised ModuleNotFoundError(statsmodels): environment limitation, not counted")


def replay_case(rep, ctx, rp):
    quick = True
    if "example" in rp and isinstance(rp["example"], dict):      # replay file of an (unlisted) finding
        rp = rp["example"]
    scs = []
    if rp.get("scenario") == "single":
        for name, short, fn, need in methods_for(rp["kind"], quick):
            if name == rp["method"]:
                sc, st = single_call(ctx, rp["kind"], rp.get("seed", 1), name, fn, need)
                scs.append((sc, rp))
    elif rp.get("scenario") == "pair":
        M = {m[0]: m for m in methods_for(rp["kind"], quick)}
        sc = pair_call(ctx, rp["kind"], rp.get("seed", 2), M[rp["A"]], M[rp["B"]], rp["B_on_result_of_A"])
        if sc is not None:
            scs.append((sc, rp))
    elif rp.get("scenario") == "estimator":
        for name, mk in estimator_scenarios(ctx, quick):
            sc = None
            try:
                sc = mk()
            except Exception:  # noqa: BLE001
                continue
            if [str(k) for k in sc.key] == rp.get("key"):
                scs.append((sc, rp))
                break
    for sc, _ in scs:
        rep.case(("replay", repr(sc.key)), sample={"replay": rp.get("what")})
        for cat, msg in sc.problems:
            print("replay:", cat, msg)
    report(rep, ctx, [(sc, {k: v for k, v in m.items() if k not in ("what", "replay_cmd", "property")}) for sc, m in scs])
