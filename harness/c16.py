"""C16 — analysis never changes its inputs and is repeatable.

Dynamic correspondence with the heap model of Model/Heap.v + Model/Purity.v:

* every mutable thing reachable from an input / configuration object / earlier result is a
  *location* (array buffers by owning base object, containers and FDApy objects by identity);
  a deep snapshot maps location -> digest (bytes, dtype, shape / keys and child locations);
* one *call* = (argument footprint, observed writes, fresh allocations, result footprint);
  the record is handed to the Coq model (`call_ok`, `history_ok`) which decides whether the
  frame condition assumed by `frame_lifts_to_histories` holds: writes only to locations the
  call allocated, result footprint disjoint from the non-frozen argument footprint;
* direct monitors on the implementation: snapshots of inputs / configuration / earlier results
  before vs after each call and each pair of consecutive calls; `np.shares_memory` / identity
  between result and inputs; probe mutation of the result (write into it, inputs must not
  move); repeat-call and refit equality (bitwise); heap poisoning with two sentinels.

Cache attributes of data objects (`_mean`, `_covariance`, ...) and the fitted attributes of
estimators are *slots*: rebinding them is allowed; the objects they pointed to are earlier
results and must not be modified in place.
"""
from __future__ import annotations

import copy
import gc
import hashlib
import warnings
from collections import UserDict, UserList

import numpy as np

from harness import common as C
from harness import fd

IMPORTS = "From FDAV Require Import Model.Heap Model.Purity Tie.C16."

RULE = ("every public analysis method of Dense (1-D, 2-D), Irregular, Basis and Multivariate functional data (mean, center, smooth, "
        "norm, normalize, standardize, rescale, covariance, inner_product, noise_variance, to_long, to_basis/to_grid, concatenate, "
        "arithmetic) and every estimator (UFPCA, MFPCA, FCPTPA, PSplines, LocalPolynomial: fit, transform, inverse_transform, "
        "predict) with generated argument combinations, on data incl. zero-variance points: deep snapshot of inputs / user "
        "configuration / earlier results before vs after each call and each ordered pair of consecutive calls A;B (B on the input and "
        "on A's result); result vs input aliasing (identity, np.shares_memory, probe mutation); repeat-call and refit equality "
        "(bitwise; np.random.seed fixed for FCPTPA); heap poisoning with sentinels 1e300 / -7.25; the observed per-call "
        "(args, writes, fresh, roots) records are checked against the frame condition of the Coq model. Non-trivial = the call "
        "returned a result (no exception); distinct by (class, method, arguments, data kind).")
ASSUME = ["locations are observed at the granularity of array buffers / containers; a write that restores the exact bytes before the call "
          "returns is invisible", "cache attributes of data objects and fitted attributes of estimators are slots (rebinding allowed)",
          "sampling points (argvals) and the basis of basis-expansion data are shared by design between inputs and results; they are "
          "frozen locations: sharing is allowed, any write to them is a violation",
          "heap poisoning relies on the allocator handing back recently freed blocks (checked by a self-test on np.empty)",
          "statsmodels is not installed: ModuleNotFoundError from Basis.inner_product is counted as an environment limitation"]

CACHE_ATTRS = {"_mean", "_covariance", "_noise_variance", "_noise_variance_cov", "_data_inpro", "_inner_product_matrix",
               "_index", "_fdata"}
FROZEN_ATTRS = {"_argvals", "_argvals_stand", "argvals", "argvals_stand", "basis", "_basis"}
SENTINELS = (1e300, -7.25)


# ==================================================================================
# locations and snapshots
# ==================================================================================
class Registry:
    """identity -> small natural number; keeps the objects alive so identities are never reused."""

    def __init__(self):
        self.ids = {}
        self.keep = []

    @property
    def next(self):
        return len(self.keep)

    def loc(self, obj):
        k = id(obj)
        if k not in self.ids:
            self.ids[k] = len(self.keep)
            self.keep.append(obj)
        return self.ids[k]


def array_owner(a):
    b = a
    while isinstance(getattr(b, "base", None), np.ndarray):
        b = b.base
    return b


def _scalar(x):
    if isinstance(x, (float, np.floating)):
        return "f:" + float(x).hex()
    return f"{type(x).__name__}:{x!r}"


class Node:
    __slots__ = ("kind", "digest", "frozen", "path", "ref")

    def __init__(self, kind, digest, frozen, path, ref):
        self.kind, self.digest, self.frozen, self.path, self.ref = kind, digest, frozen, path, ref


def is_fd_object(x):
    return type(x).__module__.startswith("FDApy")


def snapshot(roots, reg, frozen_roots=False):
    """Deep snapshot: {loc: Node}.  `roots` is a list of (name, object)."""
    out = {}

    def visit(x, path, frozen):
        # returns a digest token for the parent
        if x is None or isinstance(x, (bool, int, float, complex, str, bytes, np.generic)):
            return _scalar(x)
        if isinstance(x, np.ndarray):
            loc = reg.loc(array_owner(x))
            a = np.asarray(x)
            if a.dtype == object:
                dg = "obj[" + ",".join(visit(e, f"{path}[{i}]", frozen) for i, e in enumerate(a.ravel())) + "]"
            else:
                dg = hashlib.sha1(np.ascontiguousarray(a).tobytes()).hexdigest()
            tok = f"arr@{loc}:{a.dtype}:{a.shape}:{dg}"
            node = out.get(loc)
            if node is None:
                out[loc] = Node("array", tok, frozen, path, x)
            else:
                node.digest += "|" + tok          # several views of one buffer
                node.frozen = node.frozen and frozen
            return f"@{loc}"
        try:
            import pandas as pd
            if isinstance(x, (pd.DataFrame, pd.Series)):
                loc = reg.loc(x)
                dg = hashlib.sha1(np.ascontiguousarray(x.to_numpy(dtype=float, na_value=np.nan)).tobytes()).hexdigest()
                out[loc] = Node("frame", f"{list(getattr(x, 'columns', []))}:{x.shape}:{dg}", frozen, path, x)
                return f"@{loc}"
        except ImportError:  # pragma: no cover
            pass
        loc = reg.loc(x)
        if loc in out:
            out[loc].frozen = out[loc].frozen and frozen
            return f"@{loc}"
        node = Node("container", None, frozen, path, x)
        out[loc] = node
        if isinstance(x, (dict, UserDict)):
            items = [(repr(k), v) for k, v in (x.data if isinstance(x, UserDict) else x).items()]
            toks = [f"{k}={visit(v, f'{path}[{k}]', frozen)}" for k, v in sorted(items, key=lambda kv: kv[0])]
            extra = []
            if isinstance(x, UserDict) and is_fd_object(x):
                extra = [f"{k}={visit(v, f'{path}.{k}', frozen)}" for k, v in sorted(vars(x).items())
                         if k != "data" and k not in CACHE_ATTRS]
            node.digest = type(x).__name__ + "{" + ",".join(toks + extra) + "}"
        elif isinstance(x, (list, tuple, UserList)):
            seq = x.data if isinstance(x, UserList) else x
            toks = [visit(v, f"{path}[{i}]", frozen) for i, v in enumerate(seq)]
            node.digest = type(x).__name__ + "[" + ",".join(toks) + "]"
        elif is_fd_object(x) and hasattr(x, "__dict__"):
            toks = []
            for k, v in sorted(vars(x).items()):
                if k in CACHE_ATTRS:
                    continue
                toks.append(f"{k}={visit(v, f'{path}.{k}', frozen or k in FROZEN_ATTRS)}")
            node.digest = type(x).__name__ + "(" + ",".join(toks) + ")"
        else:
            node.digest = f"opaque:{type(x).__name__}"
        return f"@{loc}"

    for name, obj in roots:
        visit(obj, name, frozen_roots)
    return out


def diff_snap(before, after):
    """locations of `before` whose digest changed (or that are no longer reachable)."""
    bad = []
    for loc, nb in before.items():
        na = after.get(loc)
        if na is None:
            continue          # no longer reachable: the parent container's digest changed as well
        if na.digest != nb.digest:
            bad.append((loc, nb.path, nb.kind))
    return bad


def arrays_of(snap, frozen=None):
    return [(loc, n) for loc, n in snap.items() if n.kind == "array" and (frozen is None or n.frozen == frozen)]


def result_bytes(x):
    """canonical bytes of a result for bitwise repeat comparison."""
    h = hashlib.sha1()

    def visit(v):
        if v is None or isinstance(v, (bool, int, float, complex, str, bytes, np.generic)):
            h.update(_scalar(v).encode())
        elif isinstance(v, np.ndarray):
            a = np.asarray(v)
            h.update(f"{a.dtype}{a.shape}".encode())
            if a.dtype == object:
                for e in a.ravel():
                    visit(e)
            else:
                h.update(np.ascontiguousarray(a).tobytes())
        elif isinstance(v, (dict, UserDict)):
            for k, e in sorted(((repr(k), e) for k, e in (v.data if isinstance(v, UserDict) else v).items()), key=lambda kv: kv[0]):
                h.update(k.encode())
                visit(e)
            if isinstance(v, UserDict) and is_fd_object(v):
                for k, e in sorted(vars(v).items()):
                    if k != "data" and k not in CACHE_ATTRS:
                        visit(e)
        elif isinstance(v, (list, tuple, UserList)):
            h.update(f"[{len(v)}".encode())
            for e in (v.data if isinstance(v, UserList) else v):
                visit(e)
        elif type(v).__module__.startswith("pandas"):
            h.update(np.ascontiguousarray(v.to_numpy(dtype=float, na_value=np.nan)).tobytes())
        elif is_fd_object(v) and hasattr(v, "__dict__"):
            h.update(type(v).__name__.encode())
            for k, e in sorted(vars(v).items()):
                if k not in CACHE_ATTRS:
                    h.update(k.encode())
                    visit(e)
        else:
            h.update(f"opaque:{type(v).__name__}".encode())

    visit(x)
    return h.hexdigest()


# ==================================================================================
# heap poisoning
# ==================================================================================
def poison(nbytes_list, sentinel):
    """allocate / fill / free float buffers of the given sizes so that the next uninitialised
    allocation of such a size is likely to contain `sentinel`."""
    gc.collect()
    for _ in range(2):
        blocks = []
        for nb in nbytes_list:
            n = max(1, int(nb) // 8)
            for _ in range(4):
                blocks.append(np.full(n, sentinel, dtype=np.float64))
        del blocks


def poison_selftest():
    """does np.empty hand back a poisoned block on this allocator?  (evidence only)"""
    hits = 0
    for n in (8, 66, 121, 400, 1000):
        poison([8 * n], 3.25)
        a = np.empty(n)
        hits += int(np.any(a == 3.25))
    return hits


def sizes_of(*snaps):
    s = set()
    for sn in snaps:
        for _, n in arrays_of(sn):
            a = np.asarray(n.ref)
            if a.dtype != object:
                s.add(int(a.nbytes))
                if a.ndim >= 2:
                    s.add(int(a[0].nbytes))
                    s.add(int(a.shape[-1] * a.shape[-1] * 8))
    return sorted(x for x in s if 0 < x <= 1 << 22)


# ==================================================================================
# one observed call
# ==================================================================================
class Ctx:
    def __init__(self, rep):
        self.rep = rep
        self.reg = Registry()
        self.records = []          # abstract call records for the Coq model
        self.skipped_env = 0
        self.alias_info = {}
        self.n_calls = 0


def observe(ctx, label, fn, inputs, prev_results=(), info=None, probe=True):
    """Run `fn()` under the snapshot protocol.

    inputs: list of (name, object) — receiver, arguments, user configuration.
    prev_results: list of (name, object) — earlier results that must stay what they were.
    Returns (status, result, problems) with status in {'ok', 'exc:<Type>', 'env'}."""
    reg = ctx.reg
    s_in = snapshot(inputs, reg)
    s_prev = snapshot(list(prev_results), reg)
    watermark = reg.next
    problems = []
    try:
        with warnings.catch_warnings():
            warnings.simplefilter("ignore")
            result = fn()
        status = "ok"
    except ModuleNotFoundError as e:
        if "statsmodels" in str(e):
            ctx.skipped_env += 1
            status, result = "env", None
        else:
            raise
    except Exception as e:  # noqa: BLE001 - an exception must leave the inputs alone as well
        status, result = "exc:" + type(e).__name__, None
    ctx.n_calls += 1
    # ---- writes
    a_in = snapshot(inputs, reg)
    a_prev = snapshot(list(prev_results), reg)
    w_in = diff_snap(s_in, a_in)
    w_prev = diff_snap(s_prev, a_prev)
    for loc, path, kind in w_in:
        problems.append(("write-input", f"{label}: modified its input/configuration at {path}"))
    for loc, path, kind in w_prev:
        if loc not in s_in:
            problems.append(("write-earlier-result", f"{label}: modified an earlier result at {path}"))
    # ---- result footprint, aliasing
    roots, fresh, shared_frozen, alias_locs = [], [], 0, []
    if status == "ok" and result is not None:
        s_res = snapshot([("result", result)], reg)
        roots = sorted(s_res)
        fresh = [l for l in roots if l >= watermark]
        for loc, n in s_res.items():
            if loc in s_in:
                if s_in[loc].frozen:
                    shared_frozen += 1
                else:
                    alias_locs.append(loc)
                    problems.append(("alias-input", f"{label}: the result shares {s_in[loc].kind} {s_in[loc].path} with its input"))
            elif loc in s_prev and not s_prev[loc].frozen:
                ctx.alias_info[label.split("(")[0]] = ctx.alias_info.get(label.split("(")[0], 0) + 1
        # overlapping memory of distinct buffers (views handed around in foreign containers)
        in_arr = [(l, n) for l, n in arrays_of(s_in, frozen=False)]
        for lr, nr in arrays_of(s_res):
            if lr in s_in:
                continue
            for li, ni in in_arr:
                if np.asarray(nr.ref).dtype != object and np.asarray(ni.ref).dtype != object and \
                        np.shares_memory(np.asarray(nr.ref), np.asarray(ni.ref)):
                    alias_locs.append(li)
                    problems.append(("alias-input", f"{label}: result array {nr.path} overlaps input array {ni.path}"))
        # probe mutation: write into the result's own arrays, the inputs must not move
        if probe and not alias_locs:
            saved = []
            for lr, nr in arrays_of(s_res):
                a = np.asarray(nr.ref)
                if lr in s_in or a.dtype == object or not a.flags.writeable or a.size == 0 or a.dtype.kind not in "fiu":
                    continue
                saved.append((a, a.copy()))
                a[...] = a + 1
            if saved:
                moved = diff_snap(s_in, snapshot(inputs, reg))
                for a, c in saved:
                    a[...] = c
                for loc, path, kind in moved:
                    problems.append(("alias-input", f"{label}: writing into the result changes the input at {path}"))
    rec = {"label": label, "args": sorted(s_in), "frozen": sorted(l for l, n in s_in.items() if n.frozen),
           "writes": sorted({l for l, _, _ in w_in} | {l for l, _, _ in w_prev}), "fresh": fresh, "roots": roots,
           "next": watermark, "prev": sorted(s_prev), "status": status}
    ctx.records.append(rec)
    return status, result, problems, rec
