"""C09 — mean, covariance and noise variance are the textbook sample estimators."""
from __future__ import annotations

import numpy as np

from harness import common as C
from harness import fd

IMPORTS = "From FDAV Require Import Base.Num Base.Vec Base.Quad Base.Cmp Model.Stats Tie.C09."
RULE = ("dense datasets (n_obs 2..8 quick / 2..40 thorough, 3..12 / 3..40 points; dyadic and smooth values; offsets, scales) on "
        "uniform/non-uniform/shifted grids: .mean(), .covariance() (no smoothing) and .noise_variance(order 1..10) / "
        "_estimate_noise_variance incl. curves too short for the order, compared with the exact Q model "
        "(difference sequences reflected from the source); monitors: covariance symmetric/PSD/permutation-invariant, smoothed "
        "covariance (LP, PS) symmetric and on the requested points, noise estimate non-negative, a^2 scaling, shift bound from "
        "the proved formula, average of per-curve estimates. Non-trivial = n_obs >= 2 and non-constant data; distinct by input bytes.")
ASSUME = ["exact-arithmetic model; tolerances 1e-10*scale (mean), 1e-9*scale^2 (covariance, noise variance)",
          "LP/PS-smoothed covariances: only symmetry and support are checked here (their values are C05/C06/C07 matters)"]


def run(rep, props, replay=None):
    from FDApy.misc.utils import _estimate_noise_variance, DIFF_SEQUENCES
    quick = C.tier() == "quick"
    rng = np.random.default_rng([C.seed(), 9])
    runq = C.CoqRun("C09", IMPORTS)
    todo = []
    n_cases = 24 if quick else 300
    first_call_history(rep, rng)       # must stay the first covariance call of the process
    many_observations(rep)
    fd.dtype_monitor(rep, rng, {
        "mean()": lambda d: d.mean().values, "covariance()": lambda d: d.covariance().values,
        "noise_variance(order=1)": lambda d: d.noise_variance(order=1), "noise_variance(order=3)": lambda d: d.noise_variance(order=3),
        "mean(LP)": lambda d: d.mean(method_smoothing="LP", bandwidth=6.0).values}, "sample estimators", narrow=True)
    # every difference order, large shifts: the estimate must not move (the difference sequences sum to zero)
    xo = np.linspace(0, 1, 16)
    Xo = np.round((fd.smooth_curves(rng, 4, xo) + 0.2 * rng.normal(size=(4, 16))) * 256) / 256
    for order in range(1, 11):
        try:
            base = float(fd.dense(xo, Xo).noise_variance(order=order))
        except Exception as e:  # noqa: BLE001
            rep.violation(f"noise_variance(order={order}) raised {type(e).__name__}: {e} — orders 1..10 are legitimate"[:300],
                          {"x": C.hexf(xo), "X": C.hexf(Xo), "order": order})
            continue
        for shift in (100.0, -20.0, 3.5):
            moved = float(fd.dense(xo, Xo + shift).noise_variance(order=order))
            rep.case(("shift-all-orders", order, shift, Xo.tobytes()), kind="noise-variance/shift-invariance")
            # proved (C09_diffseq_facts + the shift lemma): every sequence sums to at most 2e-4 in absolute value, hence
            # |change| <= 2 |c| (2e-4) max|d . window| + (2e-4 c)^2
            wins = [abs(float(np.dot(DIFF_SEQUENCES[order], Xo[k, j:j + order + 1]))) for k in range(4) for j in range(16 - order)]
            bound = 2 * abs(shift) * 2e-4 * max(wins) + (2e-4 * shift) ** 2 + 1e-9 * (1.0 + abs(shift)) ** 2
            if abs(moved - base) > bound:
                rep.violation(f"noise_variance(order={order}) changes from {base!r} to {moved!r} when {shift} is added to the curves",
                              {"x": C.hexf(xo), "X": C.hexf(Xo), "order": order, "shift": shift})
    for i in range(n_cases):
        kind = fd.GRID_KINDS[i % len(fd.GRID_KINDS)]
        n = int(rng.integers(2, 9 if quick else 40))
        m = int(rng.integers(3, 13 if quick else 40))
        if i % 8 == 7:
            m = int(rng.integers(2, 11))          # short curves: m == order and m == order + 1 occur
        x = fd.grid(rng, max(m, 2), kind)
        m = len(x)
        style = i % 3
        if style == 0:
            X = fd.dyadic_matrix(rng, n, m)
        elif style == 1:
            X = fd.smooth_curves(rng, n, x, rough=True, offset=float(rng.choice([0.0, 50.0, -3.0])),
                                 scale=float(rng.choice([1.0, 0.01, 30.0]))) + 0.1 * rng.normal(size=(n, m))
        else:
            X = fd.dyadic_matrix(rng, n, m)
            X[:, int(rng.integers(m))] = 1.5          # a point where all curves coincide
        if i % 6 == 4:
            X = X + float(rng.choice([2.0 ** 17, -2.0 ** 20, 2.0 ** 23]))      # curves recorded around a large level (exact in doubles)
        d = fd.dense(x, X)
        sc = max(1.0, float(np.max(np.abs(X))))
        sv = max(1e-300, float(np.max(np.abs(X - X.mean(axis=0)))))            # size of the variation around the mean
        mu = np.asarray(d.mean().values)[0]
        t = runq.add(f"vclose {C.qlit(1e-10 * sc)} (mean opsQ {m}%nat {C.qmat(X)}) {C.qlist(mu)}")
        todo.append((t, "mean", kind, X))
        cov = np.asarray(d.covariance().values)[0]
        # rounding of the textbook (two-pass) estimator: eps * level * variation; eps * level^2 would be a one-pass formula
        t = runq.add(f"mclose {C.qlit(1e-12 * sc * sv + 1e-10 * sv * sv)} (cov_sym {m}%nat {C.qmat(X)}) {C.qmat(cov)}")
        todo.append((t, "covariance", kind, X))
        monitors_cov(rep, rng, d, cov, x, X)
        if i % 3 == 0:
            # the same curves in small units (times 2^-22, exact): the sample mean and the sample covariance have no absolute scale
            c2 = 2.0 ** -22
            ds = fd.dense(x, X * c2)
            mu_s, cov_s = np.asarray(ds.mean().values)[0], np.asarray(ds.covariance().values)[0]
            rep.case(("small-units", X.tobytes()), kind="scale/small-units")
            if np.max(np.abs(mu_s - c2 * mu)) > 1e-12 * c2 * sc or np.max(np.abs(cov_s - c2 * c2 * cov)) > 1e-10 * c2 * c2 * max(sv * sv, 1e-300):
                rep.violation("the same curves in small units (times 2^-22): the mean is not 2^-22 times, or the covariance not 2^-44 times, "
                              f"that of the original curves (max deviation of the covariance {np.max(np.abs(cov_s - c2 * c2 * cov)):.3g} "
                              f"against entries up to {np.max(np.abs(c2 * c2 * cov)):.3g}): not the sample covariance of small curves",
                              {"x": C.hexf(x), "X": C.hexf(X), "factor": c2})
        monitors_history(rep, d, mu, cov, x, X, i)
        for order in (sorted({1, 2, int(rng.integers(3, 11)), min(m, 10), min(max(m - 1, 1), 10)}) if quick else range(1, 11)):
            try:
                nv = d.noise_variance(order=order)
                _ = [_estimate_noise_variance(X[k], order) for k in range(n)]
            except Exception as e:  # noqa: BLE001
                rep.violation(f"noise_variance(order={order}) raised {type(e).__name__}: {e} — orders 1..10 are legitimate"[:300],
                              {"x": C.hexf(x), "X": C.hexf(X), "order": order})
                continue
            if not np.isfinite(nv):
                rep.violation(f"noise_variance(order={order}) is not finite for curves with {m} points",
                              {"x": C.hexf(x), "X": C.hexf(X), "order": order})
                continue
            t = runq.add(f"qclose {C.qlit(1e-9 * sc * sc)} (noise_var opsQ (dseq {order}%nat) {C.qmat(X)}) {C.qlit(nv)}")
            todo.append((t, f"noise-variance", kind, X))
            per = [_estimate_noise_variance(X[k], order) for k in range(n)]
            bad = []
            if nv < 0:
                bad.append("negative estimate")
            if abs(nv - float(np.mean(per))) > 1e-12 * sc * sc:
                bad.append("not the average of the per-curve estimates")
            a = 2.5
            if abs(fd.dense(x, a * X).noise_variance(order=order) - a * a * nv) > 1e-9 * sc * sc * a * a:
                bad.append("does not scale with the square of a factor")
            for k2 in (15, 30):
                # powers of two scale every intermediate exactly, so tiny curves must scale just as well
                a2 = 2.0 ** (-k2)
                if abs(fd.dense(x, a2 * X).noise_variance(order=order) - a2 * a2 * nv) > 1e-9 * sc * sc * a2 * a2:
                    bad.append(f"does not scale with the square of the factor 2^-{k2} (small curves)")
            if m < order + 1 and nv != 0:
                bad.append("non-zero for curves too short for the order")
            cst = 7.0
            nv_shift = fd.dense(x, X + cst).noise_variance(order=order)
            sd = abs(float(np.sum(DIFF_SEQUENCES[order])))
            wins = [abs(float(np.dot(DIFF_SEQUENCES[order], X[k, j:j + order + 1]))) for k in range(n)
                    for j in range(max(0, m - order))]
            bound = 2 * cst * sd * (max(wins) if wins else 0.0) + (cst * sd) ** 2 + 1e-9 * (sc + cst) ** 2
            if abs(nv_shift - nv) > bound:
                bad.append(f"changes by {abs(nv_shift - nv):.3g} > proved bound {bound:.3g} when a constant is added")
            if bad:
                rep.violation("noise_variance(order=%d): %s" % (order, "; ".join(bad)),
                              {"x": C.hexf(x), "X": C.hexf(X), "order": order})
        if i % 6 == 0:
            monitors_smoothed_cov(rep, rng, n, quick)
        if i % 6 == 3:
            X2 = fd.dyadic_matrix(rng, n, m * 3).reshape(n, m, 3)
            d2 = fd.dense([x, np.array([0.0, 0.5, 2.0])], X2)
            mu2 = np.asarray(d2.mean().values)[0]
            rep.case(("mean2d", X2.tobytes()), kind="mean/2-D")
            if mu2.shape != (m, 3) or np.max(np.abs(mu2 - X2.mean(axis=0))) > 1e-12 * sc:
                rep.violation("mean of 2-D dense data is not the pointwise average", {"X2": C.hexf(X2)})
    # the TRANSLATED source of _estimate_noise_variance (Gen/NoiseVar.v, regenerated on this run) executed in Q, per curve
    rung = C.CoqRun("C09", IMPORTS.replace("Tie.C09.", "Gen.NoiseVar Tie.C09."), shard=1)
    gtodo = []
    for t, what, kind, X in todo:
        if what == "noise-variance" and len(gtodo) < 30:
            order = [1, 2, 3, 5, 10][len(gtodo) % 5]
            xc = np.asarray(X[0], float)
            try:
                v = float(_estimate_noise_variance(xc, order))
            except Exception:  # noqa: BLE001
                continue
            scx = max(1.0, float(np.max(np.abs(xc))))
            gt = rung.add(f"match gen_noise_var1 opsQ dseq {order}%nat {C.qlist(xc)} with Some v => qclose {C.qlit(1e-9 * scx * scx)} v "
                          f"{C.qlit(v)} | None => false end")
            gtodo.append((gt, order, xc, v))
    if gtodo:
        gt = rung.add(f"match gen_noise_var1 opsQ dseq 0%nat {C.qlist(gtodo[0][2])} with None => true | Some _ => false end")
        gtodo.append((gt, 0, gtodo[0][2], None))
        gt = rung.add(f"match gen_noise_var1 opsQ dseq 11%nat {C.qlist(gtodo[0][2])} with None => true | Some _ => false end")
        gtodo.append((gt, 11, gtodo[0][2], None))
    try:
        resg = rung.run()
    except RuntimeError as e:
        rep.notes.append(("translated _estimate_noise_variance could not be evaluated (Gen/NoiseVar.v does not load): " + str(e))[:300])
        resg, gtodo = {}, []
    for gt, order, xc, v in gtodo:
        rep.case(("translated-noise", order, xc.tobytes()), nontrivial=len(xc) > order, kind="translated-noise-variance",
                 sample={"what": "translated _estimate_noise_variance", "order": order, "n": int(len(xc))})
        if v is None:
            try:
                _estimate_noise_variance(xc, order)
                raised = False
            except ValueError:
                raised = True
            if not (resg[gt] and raised):
                rep.disagreements_checked += 1
                rep.violation(f"_estimate_noise_variance(order={order}): the order must be rejected with ValueError "
                              f"(code raised: {raised}; translated source rejects: {resg[gt]})", {"x": C.hexf(xc), "order": order})
        elif not resg[gt]:
            rep.disagreements_checked += 1
            rep.violation("translator check: the Gallina translation of _estimate_noise_variance evaluated in Q differs from the "
                          "running code on the same curve", {"x": C.hexf(xc), "order": order, "impl": v})
    res = runq.run()
    for t, what, kind, X in todo:
        rep.case((what, kind, X.tobytes(), t), nontrivial=bool(np.ptp(X) > 0), kind=f"{what}/{kind}",
                 sample={"what": what, "grid": kind, "shape": list(X.shape), "first_row": X[0][:6].tolist()})
        if not res[t]:
            rep.disagreements_checked += 1
            rep.violation(f"{what}: implementation differs from the textbook estimator (exact model)",
                          {"what": what, "grid": kind, "X": C.hexf(X)})


def many_observations(rep):
    """Hundreds of curves with unequal noise levels: the estimate is still the plain average of the per-curve estimates, the mean
    the pointwise average, the covariance the sample covariance (nothing special happens at 100, 128, 256 ... observations)."""
    from FDApy.misc.utils import _estimate_noise_variance
    rng = np.random.default_rng([C.seed(), 9, 5])
    x = np.linspace(0, 1, 11)
    for n in (101, 130, 257):
        lev = np.linspace(0.05, 2.0, n)[rng.permutation(n)]
        X = np.round((np.sin(3 * x)[None, :] + lev[:, None] * rng.normal(size=(n, 11))) * 256) / 256
        d = fd.dense(x, X)
        rep.case(("many-observations", n, X.tobytes()), kind="many-observations")
        bad = []
        for order in (1, 2):
            nv = float(d.noise_variance(order=order))
            per = float(np.mean([_estimate_noise_variance(X[k], order) for k in range(n)]))
            if abs(nv - per) > 1e-10 * max(1.0, per):
                bad.append(f"noise_variance(order={order}) = {nv!r} is not the average {per!r} of the per-curve estimates")
        mu = np.asarray(d.mean().values)[0]
        if np.max(np.abs(mu - X.mean(axis=0))) > 1e-10:
            bad.append("mean is not the pointwise average")
        cov = np.asarray(d.covariance().values)[0]
        if np.max(np.abs(cov - np.cov(X.T))) > 1e-9 * max(1.0, float(np.max(np.abs(cov)))):
            bad.append("covariance is not the unbiased sample covariance")
        if bad:
            rep.violation(f"{n} observations: " + "; ".join(bad), {"x": C.hexf(x), "n_obs": n, "seed_stream": [C.seed(), 9, 5]})


def monitors_cov(rep, rng, d, cov, x, X):
    s = max(1.0, float(np.max(np.abs(cov))))
    bad = []
    if np.max(np.abs(cov - cov.T)) > 1e-12 * s:
        bad.append("not symmetric")
    if np.min(np.linalg.eigvalsh((cov + cov.T) / 2)) < -1e-9 * s:
        bad.append("not PSD")
    ref = np.cov(X.T, ddof=1) if X.shape[1] > 1 else None
    if ref is not None and np.max(np.abs(cov - ref)) > 1e-9 * s:
        bad.append("differs from the unbiased sample covariance (np.cov)")
    p = rng.permutation(X.shape[0])
    covp = np.asarray(fd.dense(x, X[p]).covariance().values)[0]
    if np.max(np.abs(covp - cov)) > 1e-9 * s:
        bad.append("depends on the order of the observations")
    if bad:
        rep.violation("covariance: " + "; ".join(bad), {"x": C.hexf(x), "X": C.hexf(X)})


def first_call_history(rep, rng):
    """The very first covariance call of the process is a SMOOTHED one (on another dataset); plain covariances computed
    afterwards — same object and a fresh one — must still be the unbiased sample covariance (nothing may stick in module- or
    function-level state such as mutable default arguments)."""
    import warnings
    x = np.linspace(0, 1, 9)
    Xa = fd.smooth_curves(rng, 6, x) + 0.1 * rng.normal(size=(6, 9))
    Xb = np.round((fd.smooth_curves(rng, 5, x) * 3 + x ** 2 * 4 + rng.normal(size=(5, 9))) * 64) / 64
    da, db = fd.dense(x, Xa), fd.dense(x, Xb)
    bad = []
    for meth, kw in (("LP", {"bandwidth": 0.5}), ("PS", {"n_segments": 3, "penalty": (5.0, 5.0)})):
        try:
            with warnings.catch_warnings():
                warnings.simplefilter("ignore")
                da.covariance(method_smoothing=meth, **kw)
        except Exception as e:  # noqa: BLE001
            rep.notes.append(f"first-call history: smoothed covariance {meth} raised {type(e).__name__}: {e}"[:160])
        for lab, obj, X in (("the same object", da, Xa), ("another dataset", db, Xb)):
            c = np.asarray(obj.covariance().values)[0]
            ref = np.cov(X.T, ddof=1)
            if np.max(np.abs(c - ref)) > 1e-9 * max(1.0, float(np.max(np.abs(ref)))):
                bad.append(f"after a {meth}-smoothed covariance call, covariance() of {lab} differs from the unbiased sample "
                           f"covariance by {np.max(np.abs(c - ref)):.3g}")
    rep.case(("first-call-history", Xa.tobytes()), kind="history/smoothed-covariance-first")
    if bad:
        rep.violation("history dependence across calls: " + "; ".join(bad), {"x": C.hexf(x), "Xa": C.hexf(Xa), "Xb": C.hexf(Xb)})


def monitors_history(rep, d, mu, cov, x, X, i):
    """The estimators are functions of the data, not of what was asked of the object before."""
    import warnings
    if len(x) < 4:
        return
    sc = max(1.0, float(np.max(np.abs(X))))
    bad = []
    try:
        with warnings.catch_warnings():
            warnings.simplefilter("ignore")
            if i % 2 == 0:
                d.mean(method_smoothing="LP", bandwidth=float(x[-1] - x[0]) * 0.6)
            else:
                d.mean(method_smoothing="PS", n_segments=2, penalty=50.0)
    except Exception as e:  # noqa: BLE001
        rep.notes.append(f"history monitor: smoothed mean raised {type(e).__name__}: {e}"[:160])
        return
    cov2 = np.asarray(d.covariance().values)[0]
    if np.max(np.abs(cov2 - cov)) > 1e-12 * sc * sc:
        bad.append(f"covariance() after a smoothed mean() differs from covariance() on fresh data by "
                   f"{np.max(np.abs(cov2 - cov)):.3g}")
    cen = np.asarray(d.center().values)
    if np.max(np.abs(cen - (X - mu))) > 1e-12 * sc:
        bad.append(f"center() after a smoothed mean() is not X - pointwise average (max dev {np.max(np.abs(cen - (X - mu))):.3g})")
    mu2 = np.asarray(d.mean().values)[0]
    if np.max(np.abs(mu2 - mu)) > 1e-12 * sc:
        bad.append("mean() after a smoothed mean() differs from the pointwise average")
    # ... and after the curves are replaced through the values setter the estimators describe the NEW curves
    from FDApy.representation.values import DenseValues
    Xn = np.round((X[::-1] * 0.75 - 1.0) * 64) / 64 + np.arange(X.shape[1]) * 0.125
    ds = fd.dense(x, X)                       # (a separate object: the caller goes on using d)
    ds.mean(); ds.covariance(); ds.center()
    orders = [o for o in (1, 2, 3) if X.shape[1] > o + 1]
    for o in orders:
        ds.noise_variance(order=o)
    ds.values = DenseValues(Xn)
    for o in orders:
        # the noise variance, too, is the estimate of the curves the object holds NOW (same object, same order, second call)
        nv_new, nv_ref = float(ds.noise_variance(order=o)), float(fd.dense(x, Xn).noise_variance(order=o))
        if not abs(nv_new - nv_ref) <= 1e-12 * max(1.0, abs(nv_ref)):
            bad.append(f"noise_variance(order={o}) after replacing the curves through the values setter is {nv_new!r}; a fresh "
                       f"dataset with the same curves gives {nv_ref!r}")
    if orders:
        di = fd.dense(x, X)
        di.noise_variance(order=orders[0])
        np.asarray(di.values)[...] = Xn               # the curves edited in place
        nv_new, nv_ref = float(di.noise_variance(order=orders[0])), float(fd.dense(x, Xn).noise_variance(order=orders[0]))
        if not abs(nv_new - nv_ref) <= 1e-12 * max(1.0, abs(nv_ref)):
            bad.append(f"noise_variance(order={orders[0]}) after the curves were edited in place is {nv_new!r}; a fresh dataset "
                       f"with the same curves gives {nv_ref!r}")
    mu3 = np.asarray(ds.mean().values)[0]
    cov3 = np.asarray(ds.covariance().values)[0]
    if np.max(np.abs(mu3 - Xn.mean(axis=0))) > 1e-12 * sc:
        bad.append("mean() after replacing the curves through the values setter is not the average of the new curves")
    if Xn.shape[0] >= 2 and np.max(np.abs(cov3 - np.cov(Xn.T, ddof=1))) > 1e-9 * sc * sc:
        bad.append("covariance() after replacing the curves through the values setter is not the sample covariance of the new curves")
    rep.case(("history", X.tobytes()), kind="history/smoothed-mean-then-plain")
    if bad:
        rep.violation("history dependence: " + "; ".join(bad), {"x": C.hexf(x), "X": C.hexf(X), "first": "LP" if i % 2 == 0 else "PS"})


def monitors_smoothed_cov(rep, rng, n, quick):
    from FDApy.representation.argvals import DenseArgvals
    m = 11
    x = np.linspace(0, 1, m)
    X = fd.smooth_curves(rng, max(n, 4), x) + 0.05 * rng.normal(size=(max(n, 4), m))
    d = fd.dense(x, X)
    pts = DenseArgvals({"input_dim_0": np.linspace(0, 1, 6)})
    for meth, kw in (("LP", {"bandwidth": 0.4}), ("PS", {"n_segments": 4, "penalty": (1.0, 1.0)}),
                     ("PS", {"n_segments": 4, "penalty": (0.1, 20.0)}),
                     ("PS", {"n_segments": np.array([3, 6]), "penalty": (1.0, 1.0)}),
                     ("LP", {"bandwidth": 0.25, "degree": 1})):
        try:
            c = np.asarray(d.covariance(points=pts, method_smoothing=meth, **kw).values)[0]
        except Exception as e:  # noqa: BLE001
            rep.case(("smoothcov", meth, X.tobytes()), kind=f"smoothed-covariance/{meth}")
            rep.violation(f"smoothed covariance ({meth}) on 6 requested points of an 11-point grid raised {type(e).__name__}: {e}"[:300],
                          {"X": C.hexf(X), "method": meth, "kwargs": {k: (v.tolist() if hasattr(v, "tolist") else v) for k, v in kw.items()}})
            continue
        # as many requested points as grid points, but other points: the values must be those at the REQUESTED points,
        # i.e. agree with what a larger request (these points plus the grid's end points) returns there
        try:
            p_same = np.linspace(0.03, 0.97, m)
            p_more = np.unique(np.concatenate([[0.0], p_same, [1.0]]))
            ca = np.asarray(d.covariance(points=DenseArgvals({"input_dim_0": p_same}), method_smoothing=meth, **kw).values)[0]
            cb = np.asarray(d.covariance(points=DenseArgvals({"input_dim_0": p_more}), method_smoothing=meth, **kw).values)[0]
            sel = np.searchsorted(p_more, p_same)
            dev = float(np.max(np.abs(ca - cb[np.ix_(sel, sel)])))
            if dev > 1e-8 * max(1.0, float(np.max(np.abs(cb)))):
                rep.violation(f"smoothed covariance ({meth}) requested at {m} points other than the {m} grid points is not the surface "
                              f"at those points (differs by {dev:.3g} from the same points inside a larger request)",
                              {"X": C.hexf(X), "method": meth, "points": C.hexf(p_same)})
        except Exception as e:  # noqa: BLE001
            rep.violation(f"smoothed covariance ({meth}) at explicitly requested points raised {type(e).__name__}: {e}"[:300],
                          {"X": C.hexf(X), "method": meth})
        rep.case(("smoothcov", meth, X.tobytes()), kind=f"smoothed-covariance/{meth}")
        bad = []
        if c.shape != (6, 6):
            bad.append(f"shape {c.shape} is not the requested points")
        elif np.max(np.abs(c - c.T)) > 1e-12 * max(1.0, np.max(np.abs(c))):
            bad.append("not symmetric")
        if not np.all(np.isfinite(c)):
            bad.append("non-finite values")
        if bad:
            rep.violation(f"smoothed covariance ({meth}): " + "; ".join(bad), {"X": C.hexf(X), "method": meth})
