#!/bin/bash
# usage: tools/try_seed_wt.sh <seed_dir>... — like try_seed.sh but in a scratch worktree (does not touch /repo's working tree).
# NOTE: overwrites evidence/Cxx.json with a run against the MUTATED tree; re-run ./check Cxx afterwards.
export OMP_NUM_THREADS=1 OPENBLAS_NUM_THREADS=1 MKL_NUM_THREADS=1 PYTHONHASHSEED=0 MPLBACKEND=Agg FDAPY_VERIF=1
WT=${WT:-/tmp/seedwt_main}
git -C /repo worktree remove --force $WT >/dev/null 2>&1; git -C /repo worktree add --detach $WT HEAD >/dev/null 2>&1 || exit 2
cd /verif
for d in "$@"; do
  id=$(basename $d); p=$(python3 -c "import json;print(json.load(open('$d/meta.json'))['property'])" 2>/dev/null || echo ${id%%_*})
  git -C $WT checkout -q -- .
  if ! git -C $WT apply $d/patch.diff 2>/dev/null; then echo "$id $p PATCH-DOES-NOT-APPLY-TO-HEAD"; continue; fi
  out=$(FDAPY_REPO=$WT PYTHONPATH=$WT:/verif timeout 1500 /venv/bin/python -m harness.main $p --tier quick 2>&1 | grep -v conda)
  v=$(echo "$out" | grep -c '^VIOLATION')
  echo "$id $p violations=$v :: $(echo "$out" | grep -A1 '^VIOLATION' | sed -n 2p | cut -c1-220)"
done
git -C /repo worktree remove --force $WT
echo TRY-DONE
