"""Generate MANIFEST.json from tools/manifest_src.py (single source of truth)."""
import json, sys
sys.path.insert(0, "/verif")
from tools.manifest_src import CHECKS, NOT_APPLICABLE
BASE = "cd /repo && /venv/bin/python -m pytest -ra -q -p no:cacheprovider --timeout=900 --continue-on-collection-errors"
m = {
 "version": 1,
 "setup_cmd": "./setup.sh",
 "hooks": {"guard": "FDAPY_VERIF", "enable": "export FDAPY_VERIF=1 (no source hooks are needed: the harness wraps attributes of the imported package)",
           "baseline_off_cmd": BASE, "source_commits": [], "add_only": True},
 "engines": [{"name": "coq-proof+correspondence", "path": "check", "serves_properties": [c["id"] for c in CHECKS],
              "kind_free_text": "Coq 8.16 theorems about a Gallina model (R instance): hand-written, plus seven small functions TRANSLATED from /repo's source text on every run (coq/Gen, harness/reflect.py) and proved equal to the model; executable Q instance tied to /repo by differential runs (vm_compute)"}],
 "checks": [],
 "notes": "See DESIGN.md. Each check: rebuilds the Coq development, re-checks Props/<id>.v (Print Assumptions harvested), runs implementation and model on the same generated inputs, runs direct property monitors; known findings in known_findings.json.",
 "not_applicable": NOT_APPLICABLE,
}
for c in CHECKS:
    m["checks"].append({
        "property_id": c["id"],
        "quick_cmd": f"./check {c['id']} --tier quick",
        "thorough_cmd": f"./check {c['id']} --tier thorough",
        "evidence_file": f"/verif/evidence/{c['id']}.json",
        "replay_cmd_template": f"./check {c['id']} --replay {{path}}",
        "engine": "coq-proof+correspondence",
        "level_claimed": {"category": "proof", "text": c["text"], "design_ref": c.get("ref", "DESIGN.md §3 " + c["id"])},
        "level_note": c["note"],
        "technique": c.get("technique", "machine-checked proof in Coq 8.16 (model proved at R, executed at Q) + differential correspondence model vs implementation"),
    })
json.dump(m, open("/verif/MANIFEST.json", "w"), indent=1)
print("wrote MANIFEST.json with", len(CHECKS), "checks,", len(NOT_APPLICABLE), "not applicable")
