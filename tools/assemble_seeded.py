"""Copy the confirmed seeded changes into /verif/seeded/<id>/ (patch.diff, demo.py, meta.json).
meta.json = the seeding agent's description + my confirmation run (tools/confirm_seeds.sh) + which check
catches it (tools/try_seed*.sh)."""
import json, os, shutil, sys, re
SRC = "/var/tmp/seeds"
DST = "/verif/seeded"
confirm = {}
for line in open(f"{SRC}/confirm.tsv"):
    parts = line.rstrip("\n").split("\t")
    if len(parts) >= 4:
        confirm[parts[0]] = {"demo_exit_unmodified": int(parts[1].split("=")[1]), "demo_exit_with_patch": int(parts[2].split("=")[1]),
                             "suite_with_patch": parts[3], "repo_head_at_confirmation": parts[4].split("=")[1] if len(parts) > 4 else ""}
detect = {}
for line in open(f"{SRC}/detect.log"):
    m = re.match(r"(\S+) (\S+) violations=(\d+) :: (.*)", line)
    if m:
        detect[m.group(1)] = {"check": m.group(2), "violations_reported": int(m.group(3)), "first_violation": m.group(4).strip()}
first_miss = {"C01_2", "C02_2", "C03_2", "C06_2", "C08_2", "C09_1", "C09_2", "C10_1", "C12_1", "C13_2", "C15_2", "C16_1", "C16_2",
              "C18_2", "spare_C01_tie"}
os.makedirs(DST, exist_ok=True)
n = 0
for d in sorted(os.listdir(SRC)) + ["A_work/spare_C01_tie"]:
    src = os.path.join(SRC, d)
    sid = os.path.basename(d)
    if not (os.path.isdir(src) and os.path.exists(os.path.join(src, "patch.diff")) and os.path.exists(os.path.join(src, "demo.py"))):
        continue
    if sid not in confirm:
        print("not confirmed:", sid); continue
    c = confirm[sid]
    if not (c["demo_exit_unmodified"] == 0 and c["demo_exit_with_patch"] != 0 and c["suite_with_patch"].startswith("11 failed, 520 passed")):
        print("REJECTED:", sid, c); continue
    out = os.path.join(DST, "C01_tie" if sid == "spare_C01_tie" else sid)
    os.makedirs(out, exist_ok=True)
    shutil.copy(os.path.join(src, "patch.diff"), out)
    shutil.copy(os.path.join(src, "demo.py"), out)
    meta = {}
    if os.path.exists(os.path.join(src, "meta.json")):
        try:
            meta = json.load(open(os.path.join(src, "meta.json")))
        except Exception:
            meta = {}
    prop = meta.get("property") or sid.split("_")[0].replace("spare", "C01")
    meta_out = {
        "id": os.path.basename(out), "property": prop,
        "clause_broken": meta.get("clause_broken", meta.get("description", "")),
        "what_it_needs_to_manifest": meta.get("what_it_needs_to_manifest", ""),
        "files_changed": meta.get("files_changed", []),
        "origin": "written by an independent sub-agent that saw only the property text and a scratch worktree of /repo",
        "my_confirmation": {**c, "how": "tools/confirm_seeds.sh: scratch worktree of /repo HEAD; demo on the clean tree, git apply patch.diff, "
                                       "demo again, full pytest suite (BASELINE command, single-threaded BLAS)"},
        "detection": {**detect.get(sid, {}), "how": "tools/try_seed_wt.sh (patch applied in a scratch worktree, quick check run against it)",
                      "caught_at_first_run": sid not in first_miss,
                      "note": ("missed by the first version of the check; caught after the generator/monitor extension recorded in DESIGN.md 6.5"
                               if sid in first_miss else "caught by the check as first built")},
        "seeding_agent_commands": meta.get("commands_run", []),
    }
    json.dump(meta_out, open(os.path.join(out, "meta.json"), "w"), indent=1)
    n += 1
print("assembled", n, "seeded changes; undetected:", [k for k, v in detect.items() if v["violations_reported"] == 0])
