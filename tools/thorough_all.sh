#!/bin/bash
cd /verif
for p in "$@"; do s=$(date +%s); out=$(timeout 5400 ./check $p --tier thorough 2>&1 | grep -v conda); echo "== $p $(( $(date +%s)-s ))s :: $(echo "$out" | grep -c ^VIOLATION) violations :: $(echo "$out" | tail -1 | cut -c1-160)"; echo "$out" | grep -A1 "^VIOLATION" | head -6; done
echo THOROUGH-DONE
