#!/bin/bash
# usage: tools/try_seed.sh <seed_dir> <Cxx> [tier]   — apply a seeded mutation to /repo, run the check, undo
d=$1; p=$2; tier=${3:-quick}
cd /verif
if ! git -C /repo diff --quiet; then echo "/repo is dirty"; exit 2; fi
git -C /repo apply "$d/patch.diff" || { echo "patch does not apply"; exit 2; }
out=$(./check "$p" --tier "$tier" 2>&1 | grep -v conda); rc=$?
git -C /repo checkout -- .
v=$(echo "$out" | grep -c '^VIOLATION')
echo "[$(basename $d) vs $p] violations=$v  $(echo "$out" | grep -A1 '^VIOLATION' | head -2 | tail -1 | cut -c1-200)"
[ "$v" -gt 0 ] && exit 0 || { echo "$out" | tail -2; exit 1; }
