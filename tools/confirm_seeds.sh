#!/bin/bash
# Confirm every seeded mutation in a scratch worktree: patch applies, demo passes on the clean tree and
# fails with the patch, the full test suite keeps exactly the baseline (520 passed / 11 failed).
export OMP_NUM_THREADS=1 OPENBLAS_NUM_THREADS=1 MKL_NUM_THREADS=1 PYTHONHASHSEED=0 MPLBACKEND=Agg
WT=${WT:-/tmp/confirm_wt}
git -C /repo worktree remove --force $WT 2>/dev/null
git -C /repo worktree add --detach $WT HEAD >/dev/null 2>&1 || exit 2
OUT=${OUT:-/var/tmp/seeds/confirm.tsv}
: > $OUT
for d in "$@"; do
  id=$(basename $d)
  cd $WT && git checkout -q -- . 
  PYTHONPATH=$WT timeout 600 /venv/bin/python $d/demo.py >/dev/null 2>&1; clean=$?
  if ! git apply $d/patch.diff 2>/dev/null; then echo -e "$id\tPATCH-DOES-NOT-APPLY" >> $OUT; continue; fi
  PYTHONPATH=$WT timeout 600 /venv/bin/python $d/demo.py >/dev/null 2>&1; mut=$?
  res=$(PYTHONPATH=$WT timeout 3000 /venv/bin/python -m pytest -q -p no:cacheprovider --timeout=900 --continue-on-collection-errors 2>&1 | tail -1)
  echo -e "$id\tdemo_clean=$clean\tdemo_mutated=$mut\t$res\thead=$(git -C /repo rev-parse --short HEAD)" >> $OUT
done
cd / && git -C /repo worktree remove --force $WT
echo DONE >> $OUT
