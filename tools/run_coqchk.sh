#!/bin/bash
# Independent re-check of the compiled development with coqchk; prints the axioms it depends on.
# usage: tools/run_coqchk.sh [Cxx ...]   (default: every Props file)   — minutes, several GB of memory
cd /verif/coq || exit 2
mods=""
if [ $# -eq 0 ]; then for f in Props/*.v; do mods="$mods FDAV.Props.$(basename $f .v)"; done
else for p in "$@"; do mods="$mods FDAV.Props.$p"; done; fi
mkdir -p /verif/evidence
( echo "# coqchk -o on: $mods"; echo "# $(date -u) coq $(coqc --version | head -1)"; timeout 3600 coqchk -silent -o -Q . FDAV $mods 2>&1 | tail -60 ) > /verif/evidence/coqchk.txt
tail -25 /verif/evidence/coqchk.txt
