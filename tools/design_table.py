"""Print the per-property as-built table for DESIGN.md §6.7 from the evidence files and the Coq sources."""
import json, glob, re, os
rows = []
for f in sorted(glob.glob('/verif/evidence/C*.json')):
    e = json.load(open(f)); c = e['coverage']; pid = e['property_id']
    src = open(f'/verif/coq/Props/{pid}.v').read()
    imports = sorted(set(re.findall(r'(Model\.\w+)', src)))
    partial = len(re.findall(r'_partial', src))
    axioms = sorted({t.split('.')[-1] for t in c['trusted_base'] if t.startswith('axiom')})
    rows.append(f"| {pid} | {', '.join(i.replace('Model.', '') for i in imports)} | {c['obligations']} | {partial} | "
                f"{c['evaluations']} / {c['distinct_nontrivial']} | {round(e['wall_s'])} s | {', '.join(axioms) or 'closed'} | "
                f"{', '.join(c.get('known_findings_seen', {}).keys()) or '—'} |")
out = []
out.append("| property | model files | theorems | `_partial` notes | cases / non-trivial (quick) | quick wall | axioms (Print Assumptions) | open findings seen |")
out.append("|---|---|---|---|---|---|---|---|")
out += rows
import sys
text = "\n".join(out)
if "--write" in sys.argv:
    d = open("/verif/DESIGN.md").read()
    a, b = "<!-- PER-PROPERTY-TABLE-BEGIN -->", "<!-- PER-PROPERTY-TABLE-END -->"
    i, j = d.index(a) + len(a), d.index(b)
    open("/verif/DESIGN.md", "w").write(d[:i] + "\n" + text + "\n" + d[j:])
    print("DESIGN.md table written")
else:
    print(text)
