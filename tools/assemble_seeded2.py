"""Round 2: copy the confirmed seeded changes of /var/tmp/seeds2 into /verif/seeded/<prop>_3/.
Same record as round 1 (tools/assemble_seeded.py): the seeding agent's description, my confirmation
(tools/confirm_seeds.sh, OUT=/var/tmp/seeds2/confirm_<group>.tsv), detection (tools/try_seed_wt.sh -> detect.log)."""
import glob, json, os, re, shutil
import sys
SRC = sys.argv[1] if len(sys.argv) > 1 else "/var/tmp/seeds2"
SUFFIX = sys.argv[2] if len(sys.argv) > 2 else "_3"
ROUND = int(sys.argv[3]) if len(sys.argv) > 3 else 2
DST = "/verif/seeded"
confirm = {}
for f in glob.glob(f"{SRC}/confirm_*.tsv"):
    for line in open(f):
        parts = line.rstrip("\n").split("\t")
        if len(parts) >= 4:
            confirm[parts[0]] = {"demo_exit_unmodified": int(parts[1].split("=")[1]), "demo_exit_with_patch": int(parts[2].split("=")[1]),
                                 "suite_with_patch": parts[3], "repo_head_at_confirmation": parts[4].split("=")[1] if len(parts) > 4 else ""}
detect = {}
for line in open(f"{SRC}/detect.log"):
    m = re.match(r"(\S+) (\S+) violations=(\d+) :: (.*)", line)
    if m:
        detect[m.group(1)] = {"check": m.group(2), "violations_reported": int(m.group(3)), "first_violation": m.group(4).strip()}
first_miss = set(sys.argv[4].split(",")) if len(sys.argv) > 4 else {"C02_1", "C05_1", "C09_1", "C10_1", "C18_1"}
n = 0
for src in sorted(glob.glob(f"{SRC}/C??_1")):
    sid = os.path.basename(src)
    c = confirm.get(sid)
    if not c or not (c["demo_exit_unmodified"] == 0 and c["demo_exit_with_patch"] != 0
                     and c["suite_with_patch"].startswith("11 failed, 520 passed")):
        print("REJECTED/unconfirmed:", sid, c); continue
    new_id = sid.split("_")[0] + SUFFIX
    out = os.path.join(DST, new_id)
    os.makedirs(out, exist_ok=True)
    shutil.copy(os.path.join(src, "patch.diff"), out)
    shutil.copy(os.path.join(src, "demo.py"), out)
    try:
        meta = json.load(open(os.path.join(src, "meta.json")))
    except Exception:
        meta = {}
    meta_out = {
        "id": new_id, "round": ROUND, "property": meta.get("property") or sid.split("_")[0],
        "clause_broken": meta.get("clause_broken", meta.get("description", "")),
        "what_it_needs_to_manifest": meta.get("what_it_needs_to_manifest", ""),
        "files_changed": meta.get("files_changed", []),
        "origin": "written by an independent sub-agent that saw only the property text and a scratch worktree of /repo (round %d, /repo HEAD %s)" % (ROUND, c.get("repo_head_at_confirmation") or "1ba1af1"),
        "my_confirmation": {**c, "how": "tools/confirm_seeds.sh: scratch worktree of /repo HEAD; demo on the clean tree, git apply patch.diff, "
                                       "demo again, full pytest suite (BASELINE command, single-threaded BLAS)"},
        "detection": {**detect.get(sid, {}), "how": "tools/try_seed_wt.sh (patch applied in a scratch worktree, quick check run against it)",
                      "caught_at_first_run": sid not in first_miss,
                      "note": ("missed by the check as it stood when the change arrived; caught after the extension recorded in DESIGN.md 6.5"
                               if sid in first_miss else "caught by the check as it stood")},
        "seeding_agent_commands": meta.get("commands_run", []),
    }
    json.dump(meta_out, open(os.path.join(out, "meta.json"), "w"), indent=1)
    n += 1
print("assembled", n, "; undetected:", [k for k, v in detect.items() if v["violations_reported"] == 0],
      "; no detection record:", [os.path.basename(s) for s in glob.glob(f"{SRC}/C??_1") if os.path.basename(s) not in detect])
