STD_NOTE = ("Trusted: Coq 8.16.1 kernel (vm_compute, no native_compute); stdlib axioms via Reals "
            "(ClassicalDedekindReals.sig_forall_dec, FunctionalExtensionality.functional_extensionality_dep) as printed by "
            "Print Assumptions in the evidence; exact-arithmetic idealisation (rounding is outside the theorems, bounded only by the "
            "tolerance of the correspondence run); numerical kernels (LAPACK etc.) are oracles characterised by hypotheses; the model is "
            "hand-written and tied to /repo by the correspondence run (generators, tolerances and NumPy reference oracles are trusted for that); "
            "where a TRANSLATED definition is named (coq/Gen/*.v, regenerated from /repo's source text on every run by the fail-closed ast "
            "translators of harness/reflect.py, which are then part of the trusted base), a lemma proves it equal to the model.")

CHECKS = [
 {"id": "C01",
  "text": "Theorems (all spectra in any solver order, all n_components requests): reported eigenvalues non-negative and non-increasing, "
          "output is a prefix of a permutation of the clipped solver pairs (pairing), k-fit = first k of the full fit, kept >= dropped, "
          "fraction rule keeps the smallest leading set reaching p; post-processing of the FPCA callers keeps order/pairing. "
          "Tie: _compute_eigen, UFPCA and MFPCA (both methods) vs the executable model on generated matrices/datasets incl. every "
          "permutation of small spectra. Open finding F1 (helper does not sort; suite pins it) is recognised by exact agreement with the "
          "defect model compute_eigen_nosort, whose surviving laws (non-negativity, prefix) are proved and whose failure is proved (…_refuted). The selection rule _select_number_eigencomponents is also TRANSLATED from the source on every run (Gen/Select.v), proved equal to the model's npc (C01_source_selection_rule) and executed in Q against the function.",
  "note": STD_NOTE},
 {"id": "C02",
  "text": "Theorems (w = trapezoid weights, s their non-zero square roots, C any covariance surface, (lambda,u) any output of the eigen-solver for "
          "W^1/2 C W^1/2 characterised by the eigen-equation): eigenfunctions W^-1/2 u have quadrature inner products u_j.u_k (orthonormal iff the "
          "solver's vectors are); every pair satisfies the integral eigen-equation C(w.phi) = lambda phi; with a complete family the Mercer sum "
          "reproduces the surface (C z = sum lambda_k (phi_k.z) phi_k for all z) and the matrix the code builds acts as that sum; Gram route: "
          "<phi_j,phi_k> = l_k (v_j.v_k)/(r_j r_k), hence mutual orthogonality and unit norm when r^2 = l. Tie: the implementation's "
          "eigenvalues / eigenfunctions / covariance / Gram eigenvectors are fed to these relations evaluated exactly in Q, and compared up to sign "
          "with the model's back-transform of an independent eigh. Open finding F1b (null-space eigenfunctions from np.linalg.eig not orthonormal "
          "for n_components=None on rank-deficient data) recognised through a weaker defect certificate. The trapezoid weights UFPCA uses are also TRANSLATED from the source (_integration_weights, Gen/TrapzWeights.v): orthonormality and the eigen-equation are restated on them (C02_cov_orthonormal_source_weights).",
  "note": STD_NOTE},
 {"id": "C03",
  "text": "Theorems: with the eigen-equation of the (n-1) sample covariance of the prepared curves, NumInt score cross-products are "
          "(n-1) lambda_k <phi_j,phi_k>_w (uncorrelated, variance lambda_k for quadrature-orthonormal eigenfunctions) and scores of centred "
          "curves sum to zero; Gram-based scores r_k v_k have cross-products r_j r_k v_j.v_k (= n lambda_k delta_jk); inverse_transform is "
          "mean + s * (linear map of the scores); scores of a combination of W-orthonormal eigenfunctions are its coefficients and the round trip "
          "returns the curve when the prepared curve lies in the span, for s = 1 and s = sqrt(weight); the uncentred-rescale defect (F2) is "
          "refuted by a computed witness. Tie: transform(None/X_train, NumInt/InnPro), inverse_transform vs the exact Q model fed with the "
          "implementation's mean, weight, eigenfunctions, on 1-D and 2-D data; open finding F2 recognised by exact agreement with the defect model.",
  "note": STD_NOTE + " PACE scores: well-formedness only. The round trip is proved to be a projection (C03_roundtrip_is_projection)."},
 {"id": "C04",
  "text": "Theorems: eigenvectors of the NON-symmetric product G Q (G block-diagonal Gram of the univariate bases, Q score covariance, both "
          "acting symmetrically) for distinct eigenvalues are Q-orthogonal; hence the multivariate eigenfunctions a_k = (nf_k/sqrt(nu_k)) Q c_k "
          "are mutually orthogonal and of unit norm (nf_k^2 c_k^T Q c_k = 1) for the product-space inner product a^T G b, which is the SUM OVER "
          "COMPONENTS of a_p^T G_p b_p for blocks of DIFFERENT sizes (block_split_sound, split_sizes_concat); the sample covariance of score "
          "columns S c_j, S c_k is c_j^T Q c_k (= nu_k delta_jk for orthonormal univariate bases: PACE scores uncorrelated with variance nu); "
          "inverse_transform is affine per component; listing the components in another order is a simultaneous re-indexing of the stacked "
          "coordinates by a permutation s: the score covariance is re-indexed (cov_reidx_entry), every eigenpair of the re-indexed matrix "
          "is the re-indexed eigenvector with the same eigenvalue, inner products and hence scores are unchanged (Lemmas/PermEquiv.v). Tie: the implementation's univariate scores, Gram matrices, eigenpairs, coefficients, "
          "PACE scores and reconstructions are checked exactly in Q against these relations for P=1..3 components on different grids with UFPCA "
          "and P-spline expansions; metamorphic check under every permutation of the components; irregular components for well-formedness. "
          "Open finding F16 (normalisation with the uncentred second moment) recognised through a corrected-coefficients certificate.",
  "note": STD_NOTE + " Partial: permutation equivariance is proved for the matrix eigenproblem, the covariance and the scores under re-indexing; that the "
          "implementation's block layout realises such a re-indexing is checked by the metamorphic monitor (every permutation of the components)."},
 {"id": "C05",
  "text": "Theorems about the explicit (tensor-product) penalised weighted least-squares normal equations A c = B^T(w.Bc) + sum lambda D^T D c = "
          "B^T(w.y), for ANY design rows, weights >= 0, penalties >= 0 (hence any dimension): quadratic form c.Ac = sum w_k (b_k.c)^2 + sum "
          "lambda |Dc|^2 >= 0; two solutions have equal fitted values wherever the weight is positive (equal coefficients when the form is "
          "definite); solutions combine linearly in the responses; zero-weight responses do not enter; any beta0 annihilated by the penalty "
          "matrices is reproduced for EVERY lambda; d-th differences annihilate polynomial sequences of degree < d (d=1,2,3); leverages "
          "w_i b_i.A^-1 b_i lie in [0,1]; CONSTANTS ARE REPRODUCED, end to end on the executed model (1-D): the difference matrix of any order "
          ">= 1 annihilates constant coefficient vectors, the Cox-de Boor design maps them to the constant on the closed domain (partition "
          "of unity), hence every solution of the normal equations of constant responses has the constant as fitted value at every "
          "observation of positive weight, for every penalty weight; AFFINE FUNCTIONS likewise for every penalty order >= 2 (Greville "
          "identity for Cox-de Boor B-splines, affine Greville coefficients on equally spaced knots, differences of order >= 2 "
          "annihilate affine sequences); QUADRATICS for every penalty order >= 3 and spline degree >= 2 (quadratic case of Marsden's identity, "
          "quadratic coefficient sequences on equally spaced knots, vanishing second moment of the difference coefficients). "
          "Tie: PSplines.fit/predict in 1-D, 2-D, 3-D with independent n_segments/degree per dimension: "
          "beta_hat, y_hat, hat-matrix diagonal and predictions are verified as certificates against the MODEL's normal equations (Cox-de Boor "
          "basis, Kronecker rows, difference penalties) exactly in Q.",
  "note": STD_NOTE + " Polynomial reproduction is proved in 1-D for every degree below the penalty order (orders 1..3) and in 2-D / 3-D for (sums of) products of such polynomials (Kronecker structure of design2/pens2 and design3/pens3). The solver's output is checked as a "
          "certificate (residual), not recomputed; leverage certificates are exact for all observations in 1-D and for a sample in 2-D/3-D "
          "(all are compared with a NumPy reference)."},
 {"id": "C06",
  "text": "Theorems: Epanechnikov / tricube / bisquare kernels are non-negative for t>=0 and vanish for t>=1; the weight is even in x-x0; the "
          "Gaussian kernel is positive (Reals exp/sqrt/PI); the <=1 and <1 support conventions give the same Epanechnikov weights; the local fit "
          "is the solution of kernel-weighted normal equations on the centred, bandwidth-scaled design, hence (instances of the C05 lemmas) "
          "linear in the responses, reproduces every polynomial up to the fitted degree (estimate = intercept = value at the query point; "
          "end to end for polynomials given in x: re-expansion around the query point, Lemmas/LocalPolyRepro.v), "
          "ignores zero-weight responses, is unique when the weighted design has full rank, and design and weights are invariant under a common "
          "shift/rescaling of sampling points, query point and bandwidth. Tie: LocalPolynomial.predict (constructor- and setter-configured) in "
          "1-D and 2-D for the four kernels, degrees 0..3, five domains: each estimate is verified exactly in Q as the intercept of a "
          "solution of the model's local normal equations; monitors for linearity, reproduction, locality, invariance, kernel values, default "
          "query set with tied observations. Translator: the four kernel functions and the name->function dispatch are translated from "
          "local_polynomial.py into Gen/Kernels.v on every run (fail-closed ast translator); 7 theorems prove the translated functions equal "
          "the model's kernels composed with |.| (non-negative, compactly supported, even), and the translated kernels are evaluated in Q "
          "against the running functions.",
  "note": STD_NOTE + " Gaussian weights and 2-D Euclidean norms enter the executable model as checked oracle values; local systems with "
          "condition number > 1e8 (scaled design) are skipped and counted; the local solution is verified as a certificate."},
 {"id": "C07",
  "text": "Theorems (congruence laws of the model, thin by construction): for any pointwise predictor — P-splines with a fitted state that "
          "CONTAINS the fit domain, local polynomials with the data — the value at a location is the same at any position of any query list "
          "(sub-lists, permutations, concatenations); P-spline prediction is such a predictor; predicting at the fitting grid equals the "
          "fitted values B beta (transpose lemma); rebuilding the basis on the query range (repaired defect F6) is refuted by a computed witness "
          "and characterised (it coincides with the correct prediction exactly on queries spanning the fit domain: predict_rebuild_same_range); "
          "queries compose (ps_predict_app / _length / _repeat) and only the coefficients and fit-domain fields of the state are consulted "
          "(ps_predict_state_fields). "
          "Tie (where the content is): PSplines.predict vs the pointwise model (exact Cox-de Boor basis on the fit domain, implementation's "
          "beta) and the metamorphic relation Q' subset Q for PSplines, LocalPolynomial, and smooth / mean / covariance of dense and "
          "irregular data with PS and LP, explicit and default parameters, 1-D and a 2-D sub-grid case.",
  "note": STD_NOTE + " The theorems are congruences; the assurance that the implementation factors through the model is the correspondence run."},
 {"id": "C08",
  "text": "Theorems (all grids that are non-decreasing lists of reals, all integrands/datasets of matching length): trapezoid integration equals "
          "the dot product with its own weights, weights >= 0, additive and homogeneous, exact on affine pieces and additive over adjacent "
          "pieces (hence exact for piecewise-linear integrands with breakpoints on the grid), factorises over product grids; squared norm "
          "homogeneous, |c|-homogeneity of the norm, Cauchy-Schwarz and triangle inequality (square roots as oracle values); the Gram matrix as "
          "the code builds it (upper triangle, symmetrise, halve diagonal) equals the matrix of inner products, is symmetric, has squared norms "
          "on its diagonal, its quadratic form is the squared norm of the combination (PSD), rows sum to zero for centred curves, re-indexing "
          "equivariance, sums of PSD component matrices are PSD. Tie: _integration_weights, _integrate (1-D/2-D/3-D), _inner_product, "
          "DenseFunctionalData.norm/inner_product evaluated against the exact Q model; Simpson's rule (scipy's composite rule for unequal spacings, Model/Simpson.v): linear, exact for quadratics on every strictly increasing grid with >= 3 points, factorises over product grids; _integrate(method='simpson') compared exactly with the model in 1-D and 2-D; monitors for multivariate and basis data. _integration_weights(method='trapz') is also TRANSLATED from the source on every run (Gen/TrapzWeights.v), proved equal to trapz_w (C08_source_trapz_weights) and executed in Q against the function.",
  "note": STD_NOTE + " Basis-expansion Gram matrices are monitored, not modelled."},
 {"id": "C09",
  "text": "Theorems (all datasets of n rows on m points): the mean is the pointwise average and is invariant under permutation of the "
          "observations; the covariance built from the centred columns has entries <col_s,col_t>/(n-1), is symmetric and PSD (quadratic form = "
          "squared norm /(n-1)); symmetrisation applied last makes any smoother output symmetric and fixes symmetric input; the difference-based "
          "noise estimate is >= 0, scales with a^2, is 0 for curves shorter than the sequence, and under an additive constant c changes by the "
          "exact amount 2c(sum d)avg(d.w)+c^2(sum d)^2, with |sum d|<=2e-4, |sum d^2-1|<=1e-3 proved for the ten difference sequences REFLECTED "
          "from the source on every run. Tie: .mean(), .covariance(), .noise_variance(order 1..10), _estimate_noise_variance vs the exact Q "
          "model; monitors for permutation invariance of the covariance, LP/PS-smoothed covariances (symmetry, support), per-curve averaging. _estimate_noise_variance is also TRANSLATED from the source on every run (Gen/NoiseVar.v, with the reflected difference sequences of Gen/Consts.v): C09_source_noise_estimator states rejection of orders outside 1..10, non-negativity, the square law and zero for short curves on the translated code; executed in Q against the function.",
  "note": STD_NOTE + " The covariance entries are also characterised as sums over the centred observations and proved invariant "
          "under permutation of the observations (C09_cov_entry_rows, C09_cov_perm)."},
 {"id": "C10",
  "text": "Theorems: centering makes the pointwise mean zero and is idempotent (entry formula x_ij - mean_j); dividing by the norm r (oracle root, "
          "r^2 = squared norm) gives unit norm; standardising has the entry formula (x_ij - mean_j)/sd_j guarded to 0 where sd_j = 0 (every cell "
          "specified), and gives population variance 1 per column where it was positive; rescaling by s scales the integrated pointwise variance "
          "by 1/s^2, hence re-estimated weight one for s = sqrt(weight). Tie: DenseFunctionalData.center/normalize/standardize/rescale (default, "
          "use_argvals_stand, user weight) vs the exact Q model (np.sqrt/np.std enter as oracle values re-checked in Q); monitors of the promised "
          "effects on basis-expansion, multivariate and irregular data (both encodings).",
  "note": STD_NOTE + " Basis / multivariate / irregular variants are monitored on the implementation, not modelled."},
 {"id": "C14",
  "text": "Theorems: evaluation of a basis expansion on its grid is linear in the coefficients and commutes with the mean, with centring, with "
          "scaling, and with inner products / norms through the basis Gram matrix (c G c' = <to_grid c, to_grid c'>); zero-penalty spline "
          "expansion returns the coefficients of a curve of the spline space (with C05 uniqueness); the dense long table has n*m entries and "
          "entry i*m+j is (observation i, point j, value): every pair exactly once, row-major; CSV rows keep exactly their present cells in "
          "order at their abscissae, and the table is dense iff no cell is missing. Tie: BasisFunctionalData (4 families, 1-D and 2-D) "
          "to_grid / inner_product vs the exact Q model, every statistic on the expansion vs on the evaluated curves (two quadrature rules in "
          "sequence on the same object), to_basis vs PS smoothing, exact recovery in the spline space, long tables, read_csv on generated files.",
  "note": STD_NOTE + " Covariance commutation (n-1)*cov_grid(s,t) = n*phi(s)^T cov_coef phi(t) is proved (C14_cov_commutes_up_to_n) and tied."},
 {"id": "C18",
  "text": "Theorems: Cox-de Boor B-splines of ANY degree on ANY strictly increasing knot sequence are non-negative, vanish outside "
          "[t_j, t_{j+p+1}), have at most p+1 non-zero members at a point and sum to one on [t_{lo+p}, t_{lo+n}] INCLUDING the right end point "
          "(induction on the degree, telescoping); instantiated to the code's equally spaced extended knots for every domain a<b, n_segments>=1, "
          "degree>=1 (sum = 1 on the closed domain [domain_min, domain_max]); the polymorphic executable model equals that recursion; Legendre "
          "P_k(1)=1; dropping the intercept removes exactly the first function; 2-D bases are row-major tensor products (index formula). "
          "Tie: _basis_bsplines for degree 1..5 x n_functions vs the exact Q model (this is what establishes truncated-power = Cox-de Boor), "
          "_basis_legendre vs Bonnet, Basis(...) intercept / normalisation / all 16 2-D family combinations vs the model tensor; monitors for "
          "Fourier / Wiener / Legendre orthogonality by quadrature and closed forms.",
  "note": STD_NOTE + " Also proved: Wiener functions orthonormal on [0,1] and Fourier functions (constant, cosines, sines) orthonormal on "
          "[a,b] as Riemann integrals (Coquelicot is_RInt, explicit antiderivatives; adds Classical_Prop.classic and sig_not_dec to the "
          "axioms); Legendre polynomials orthogonal on [-1,1] with norms 2/(2k+1) for all degrees <= 15 by exact polynomial integration "
          "(finite check lifted by forallb_forall and the Q/R transfer; not the unbounded claim). Truncated-power = Cox-de Boor is "
          "established by correspondence only."},
]

import glob, json, os
for _f in sorted(glob.glob(os.path.join(os.path.dirname(__file__), "manifest_entries", "C*.json"))):
    _e = json.load(open(_f))
    if _e["id"] not in {c["id"] for c in CHECKS} and os.path.exists(f"/verif/harness/{_e['id'].lower()}.py"):
        _e["note"] = STD_NOTE + " " + _e.get("note", "")
        CHECKS.append(_e)
CHECKS.sort(key=lambda c: c["id"])

ALL = ["C%02d" % i for i in range(1, 21)]
_claimed = {c["id"] for c in CHECKS}
NOT_APPLICABLE = [{"property_id": p, "reason": "not yet built in this round (planned, see DESIGN.md §3/§5); no check is claimed"}
                  for p in ALL if p not in _claimed]
