STD_NOTE = ("Trusted: Coq 8.16.1 kernel (vm_compute, no native_compute); stdlib axioms via Reals "
            "(ClassicalDedekindReals.sig_forall_dec, FunctionalExtensionality.functional_extensionality_dep) as printed by "
            "Print Assumptions in the evidence; exact-arithmetic idealisation (rounding is outside the theorems, bounded only by the "
            "tolerance of the correspondence run); numerical kernels (LAPACK etc.) are oracles characterised by hypotheses; the model is "
            "hand-written and tied to /repo only by the correspondence run (generators, tolerances and NumPy reference oracles are trusted for that).")

CHECKS = [
 {"id": "C01",
  "text": "Theorems (all spectra in any solver order, all n_components requests): reported eigenvalues non-negative and non-increasing, "
          "output is a prefix of a permutation of the clipped solver pairs (pairing), k-fit = first k of the full fit, kept >= dropped, "
          "fraction rule keeps the smallest leading set reaching p; post-processing of the FPCA callers keeps order/pairing. "
          "Tie: _compute_eigen, UFPCA and MFPCA (both methods) vs the executable model on generated matrices/datasets incl. every "
          "permutation of small spectra. Open finding F1 (helper does not sort; suite pins it) is recognised by exact agreement with the "
          "defect model compute_eigen_nosort, whose surviving laws (non-negativity, prefix) are proved and whose failure is proved (…_refuted).",
  "note": STD_NOTE},
]

ALL = ["C%02d" % i for i in range(1, 21)]
_claimed = {c["id"] for c in CHECKS}
NOT_APPLICABLE = [{"property_id": p, "reason": "not yet built in this round (planned, see DESIGN.md §3/§5); no check is claimed"}
                  for p in ALL if p not in _claimed]
