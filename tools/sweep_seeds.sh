#!/bin/bash
# run every check for several seeds on the unchanged tree; any VIOLATION / non-zero exit is a false alarm to triage
cd /verif
for seed in "$@"; do
  for p in C01 C02 C03 C04 C05 C06 C07 C08 C09 C10 C11 C12 C13 C14 C15 C16 C17 C18 C19 C20; do
    out=$(VERIF_SEED=$seed timeout 1500 ./check $p --tier quick 2>&1 | grep -v conda); rc=$?
    v=$(echo "$out" | grep -c '^VIOLATION')
    echo "seed=$seed $p violations=$v $(echo "$out" | tail -1 | cut -c1-150)"
    [ "$v" -gt 0 ] && echo "$out" | grep -A1 '^VIOLATION' | head -4
  done
done
echo SWEEP-DONE
