"""F7a: MultivariateFunctionalData.extend/insert must keep a common number of obs.

Invariant of the class (enforced by `__init__` and `append`): all the components have
the same number of observations. Property tested: `extend` and `insert` raise a
ValueError for a component with a different number of observations and leave the
object unchanged; valid calls still work (list, generator, multivariate object).
"""
import sys

import numpy as np

from FDApy.representation.argvals import DenseArgvals
from FDApy.representation.values import DenseValues
from FDApy.representation.functional_data import (
    DenseFunctionalData,
    MultivariateFunctionalData,
)

failures = []


def make(n_obs, n_points=11):
    t = np.linspace(0, 1, n_points)
    values = np.arange(n_obs * n_points, dtype=float).reshape(n_obs, n_points)
    return DenseFunctionalData(DenseArgvals({"input_dim_0": t}), DenseValues(values))


def check_rejected(label, call, fdata):
    before = list(fdata.data)
    try:
        call()
    except ValueError as err:
        outcome = f"ValueError({err})"
        ok = True
    except Exception as err:  # noqa
        outcome = f"{type(err).__name__}({err})"
        ok = False
    else:
        outcome = "accepted"
        ok = False
    unchanged = len(fdata.data) == len(before) and all(
        a is b for a, b in zip(fdata.data, before)
    )
    n_obs = [component.n_obs for component in fdata.data]
    print(f"{label:45s} -> {outcome}; n_obs of the components: {n_obs}")
    if not (ok and unchanged):
        failures.append(label)


fdata = MultivariateFunctionalData([make(5), make(5, 21)])
check_rejected("extend([3 obs])", lambda: fdata.extend([make(3)]), fdata)
fdata = MultivariateFunctionalData([make(5), make(5, 21)])
check_rejected("extend([5 obs, 3 obs])", lambda: fdata.extend([make(5), make(3)]), fdata)
fdata = MultivariateFunctionalData([make(5), make(5, 21)])
check_rejected("insert(1, 3 obs)", lambda: fdata.insert(1, make(3)), fdata)
fdata = MultivariateFunctionalData([])
check_rejected("empty.extend([5 obs, 3 obs])", lambda: fdata.extend([make(5), make(3)]), fdata)

# valid calls
fdata = MultivariateFunctionalData([make(5), make(5, 21)])
fdata.extend([make(5, 7), make(5, 8)])
fdata.extend(make(5, n) for n in (9, 10))
fdata.extend(MultivariateFunctionalData([make(5, 12)]))
new = make(5, 13)
fdata.insert(1, new)
empty = MultivariateFunctionalData([])
empty.insert(0, make(4))
empty.extend([make(4)])
n_points = [component.n_points[0] for component in fdata.data]
print(f"valid extend/insert: n_points of the components {n_points}, n_obs {fdata.n_obs}")
if n_points != [11, 13, 21, 7, 8, 9, 10, 12] or fdata.data[1] is not new:
    failures.append("valid calls")
if empty.n_functional != 2:
    failures.append("valid calls on empty object")

if failures:
    print(f"\nFAIL: {failures}")
    sys.exit(1)
print("\nPASS")
