"""F10: local polynomial smoothing of sparsified (NaN-encoded) irregular data.

`Simulation.sparsify` returns IrregularFunctionalData whose curves live on the common
grid, with NaN at the unobserved points. Property tested:
`IrregularFunctionalData.smooth(method="LP")` returns finite curves, equal to the
smoothing of the same curves given only by their observed samples (explicit
IrregularFunctionalData without NaN), as `method="PS"` already does through zero
weights.
"""
import sys
import warnings

import numpy as np

from FDApy.representation.argvals import DenseArgvals, IrregularArgvals
from FDApy.representation.values import IrregularValues
from FDApy.representation.functional_data import IrregularFunctionalData
from FDApy.simulation.karhunen import KarhunenLoeve

warnings.simplefilter("ignore")
failures = []

kl = KarhunenLoeve(
    basis_name="bsplines",
    n_functions=5,
    argvals=DenseArgvals({"input_dim_0": np.linspace(0, 1, 101)}),
    random_state=42,
)
kl.new(n_obs=10)
kl.sparsify(percentage=0.5, epsilon=0.05)
sparse = kl.sparse_data
n_nan = [int(np.isnan(v).sum()) for v in sparse.values.values()]
print(f"sparsified data: {sparse.n_obs} curves on {sparse.n_points[0]} points, "
      f"NaN per curve: {n_nan}")

# The same curves, described by their observed samples only.
grid = sparse.argvals[0]["input_dim_0"]
observed = IrregularFunctionalData(
    IrregularArgvals(
        {
            i: DenseArgvals({"input_dim_0": grid[~np.isnan(v)]})
            for i, v in sparse.values.items()
        }
    ),
    IrregularValues({i: v[~np.isnan(v)] for i, v in sparse.values.items()}),
)
points = DenseArgvals({"input_dim_0": grid})

for method, kwargs in (
    ("LP", {"bandwidth": 0.2}),
    ("LP", {"bandwidth": 0.2, "degree": 2, "kernel_name": "gaussian"}),
    ("PS", {"penalty": (1.0,)}),
):
    smooth = sparse.smooth(points=points, method=method, **kwargs).values
    reference = observed.smooth(points=points, method=method, **kwargs).values
    n_bad = int(np.sum(~np.isfinite(smooth)))
    err = np.max(np.abs(smooth - reference)) if n_bad == 0 else np.nan
    ok = n_bad == 0 and err < 1e-8
    print(
        f"smooth(method={method!r}, {kwargs}): {n_bad}/{smooth.size} non-finite values, "
        f"max diff with the smoothing of the observed samples = {err:.3e}  "
        f"{'ok' if ok else 'WRONG'}"
    )
    if not ok:
        failures.append((method, kwargs))

if failures:
    print(f"\nFAIL: {failures}")
    sys.exit(1)
print("\nPASS")
