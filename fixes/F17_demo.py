"""F17: PSplines.fit rewrote the user's n_segments / degree (int -> array of the FIRST data's dimension),
so the same estimator could no longer be fitted to data of another dimension."""
import numpy as np
from FDApy.preprocessing.smoothing.psplines import PSplines
x1 = np.linspace(0, 1, 12); y1 = np.sin(3 * x1)
x2 = np.linspace(0, 2, 9); Y = np.add.outer(np.sin(3 * x1), x2 ** 2)
ps = PSplines(n_segments=6, degree=3)
ps.fit(y1, x1, penalty=1.5)
assert ps.n_segments == 6 and ps.degree == 3, f"configuration rewritten: {ps.n_segments!r}, {ps.degree!r}"
ps.fit(Y, [x1, x2], penalty=(1.0, 2.0))                      # raised ValueError before the fix
fresh = PSplines(n_segments=6, degree=3); fresh.fit(Y, [x1, x2], penalty=(1.0, 2.0))
assert np.array_equal(ps.y_hat, fresh.y_hat)
print("ok")
