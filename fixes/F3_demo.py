"""F3: UFPCA/MFPCA.inverse_transform must undo the `normalize=True` rescaling.

`fit(normalize=True)` divides the centred data by sqrt(weights) (see
`DenseFunctionalData.rescale`), so `inverse_transform(transform(None))` must
multiply by sqrt(weights) to come back to the scale of the training curves.
Property tested: low-rank noise-free training curves are reproduced by
inverse_transform(transform(None)) when all the (non-null) components are kept.
"""
import sys
import warnings

import numpy as np

from FDApy.representation.argvals import DenseArgvals
from FDApy.representation.values import DenseValues
from FDApy.representation.functional_data import (
    DenseFunctionalData,
    MultivariateFunctionalData,
)
from FDApy.preprocessing.dim_reduction.ufpca import UFPCA
from FDApy.preprocessing.dim_reduction.mfpca import MFPCA

warnings.simplefilter("ignore")
failures = []


def make(scale, seed, n_obs=30, n_points=101):
    rng = np.random.default_rng(seed)
    t = np.linspace(0, 1, n_points)
    basis = np.sqrt(2) * np.stack(
        [np.sin(2 * np.pi * t), np.cos(2 * np.pi * t), np.sin(4 * np.pi * t)]
    )
    coef = rng.normal(size=(n_obs, 3)) * np.array([3.0, 2.0, 1.0])
    values = scale * (coef @ basis) + 1.0 + t
    return DenseFunctionalData(DenseArgvals({"input_dim_0": t}), DenseValues(values))


def report(name, rec, ref, rtol):
    """Compare a reconstruction with the training curves.

    `rtol` is relative to the amplitude of the curves. The covariance-based
    UFPCA reconstruction is exact (1e-6); the Gram-matrix based estimators
    subtract an estimate of the noise variance from the diagonal of the Gram
    matrix and MFPCA smooths the data with P-splines, hence their reconstruction
    of noise-free curves is only accurate to a few percent (up to 8% here), with
    or without normalisation. The defect is a factor sqrt(w) (here between 2 and 17).
    """
    err = np.max(np.abs(rec - ref)) / np.max(np.abs(ref))
    ok = err < rtol
    print(f"{name:64s} relative error = {err:.3e}  {'ok' if ok else 'WRONG'}")
    if not ok:
        failures.append(name)


# --- UFPCA
for scale in (5.0, 0.2):
    data = make(scale, seed=1)
    for method, rtol in (("covariance", 1e-6), ("inner-product", 5e-2)):
        recs = {}
        for normalize in (False, True):
            ufpca = UFPCA(method=method, n_components=3, normalize=normalize)
            ufpca.fit(data)
            scores = ufpca.transform(None, method="NumInt")
            recs[normalize] = ufpca.inverse_transform(scores).values
            report(
                f"UFPCA {method} scale={scale} normalize={normalize} "
                f"(w={float(ufpca.weights):.4g})",
                recs[normalize],
                data.values,
                rtol,
            )
        # Normalising is a change of unit: it must not change the reconstruction.
        report(
            f"UFPCA {method} scale={scale} normalize=True vs normalize=False",
            recs[True],
            recs[False],
            1e-6,
        )

# --- MFPCA (one weight per component)
data = MultivariateFunctionalData([make(5.0, seed=2), make(0.5, seed=3)])
for method in ("inner-product", "covariance"):
    recs = {}
    for normalize in (False, True):
        kwargs = {}
        if method == "covariance":
            # fresh dictionaries for each fit (`fit` consumes their entries)
            kwargs["univariate_expansions"] = [
                {"method": "UFPCA", "n_components": 3} for _ in range(2)
            ]
        mfpca = MFPCA(method=method, n_components=6, normalize=normalize, **kwargs)
        mfpca.fit(data)
        scores = mfpca.transform(None, method="NumInt")
        recs[normalize] = mfpca.inverse_transform(scores)
        for p, (rec_p, data_p) in enumerate(zip(recs[normalize].data, data.data)):
            report(
                f"MFPCA {method} component {p} normalize={normalize} "
                f"(w={float(mfpca.weights[p]):.4g})",
                rec_p.values,
                data_p.values,
                1.5e-1,
            )

if failures:
    print(f"\nFAIL: {len(failures)} reconstruction(s) are wrong")
    sys.exit(1)
print("\nPASS")
