"""F19 (C14): BasisFunctionalData.rescale() on a 2-D basis.
Before the fix (repo 1ba1af1): ValueError("The Argvals and the Values do not have coherent number of sampling points.")
After  the fix (repo 443730d): the weight equals the weight of the evaluated (dense 2-D) images.
Exit 0 when the property's claim holds (rescaling weight from the coefficients = weight from the evaluated curves)."""
import sys
import warnings

import numpy as np

warnings.simplefilter("ignore")
from FDApy.representation.argvals import DenseArgvals  # noqa: E402
from FDApy.representation.basis import Basis  # noqa: E402
from FDApy.representation.functional_data import BasisFunctionalData  # noqa: E402

rng = np.random.default_rng(0)
t1, t2 = np.linspace(0, 1, 7), np.array([0.0, 0.25, 0.5, 0.8, 1.0])
basis = Basis(name=("fourier", "legendre"), n_functions=(3, 2), argvals=DenseArgvals({"input_dim_0": t1, "input_dim_1": t2}))
coef = np.round(rng.normal(size=(4, 6)) * 8) / 8
bd = BasisFunctionalData(basis=basis, coefficients=coef.copy())
grid = bd.to_grid()
try:
    wb = float(bd.rescale()[1])
except Exception as e:  # noqa: BLE001
    print("rescale() of 2-D basis data raised", type(e).__name__, e)
    sys.exit(1)
wg = float(grid.rescale()[1])
print("weight from coefficients", wb, "weight from evaluated images", wg)
sys.exit(0 if abs(wb - wg) < 1e-9 * max(1.0, abs(wg)) else 1)
