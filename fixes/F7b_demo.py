"""F7b: the `argvals_stand` setter must reject sampling points of the wrong size.

`argvals_stand` holds the sampling points rescaled to [0, 1]; it is used in place of
`argvals` for numerical integration (`norm`, `rescale`, ... with
`use_argvals_stand=True`), hence it must have as many points as `argvals`. Property
tested: a mismatching assignment raises ValueError and leaves the object unchanged
(usable); a wrong type still raises TypeError; a matching assignment is accepted.
"""
import sys

import numpy as np

from FDApy.representation.argvals import DenseArgvals, IrregularArgvals
from FDApy.representation.values import DenseValues, IrregularValues
from FDApy.representation.functional_data import (
    DenseFunctionalData,
    IrregularFunctionalData,
)

failures = []


def check(label, fdata, bad, good):
    before = fdata.argvals_stand
    try:
        fdata.argvals_stand = bad
    except ValueError as err:
        outcome, ok = f"ValueError({err})", True
    except Exception as err:  # noqa
        outcome, ok = f"{type(err).__name__}({err})", False
    else:
        outcome, ok = "accepted", False
    ok = ok and fdata.argvals_stand is before
    try:
        norm = fdata.norm(use_argvals_stand=True)
        usable = f"norm(use_argvals_stand=True) = {np.round(norm, 4)}"
    except Exception as err:  # noqa
        usable = f"norm(use_argvals_stand=True) raises {type(err).__name__}: {err}"
        ok = False
    print(f"{label}: wrong size -> {outcome}; afterwards {usable}")

    try:
        fdata.argvals_stand = 0
    except TypeError:
        pass
    else:
        print(f"{label}: wrong type accepted")
        ok = False
    fdata.argvals_stand = good
    ok = ok and fdata.argvals_stand is good
    if not ok:
        failures.append(label)


t = np.linspace(0, 2, 5)
dense = DenseFunctionalData(
    DenseArgvals({"input_dim_0": t}), DenseValues(np.array([t, t**2]))
)
check(
    "dense",
    dense,
    DenseArgvals({"input_dim_0": np.linspace(0, 1, 7)}),
    DenseArgvals({"input_dim_0": np.linspace(0, 1, 5)}),
)

irregular = IrregularFunctionalData(
    IrregularArgvals(
        {
            0: DenseArgvals({"input_dim_0": np.array([0.0, 1.0, 2.0])}),
            1: DenseArgvals({"input_dim_0": np.array([0.0, 0.5, 1.5, 2.0])}),
        }
    ),
    IrregularValues({0: np.array([1.0, 2.0, 3.0]), 1: np.array([1.0, 0.0, 1.0, 2.0])}),
)
check(
    "irregular",
    irregular,
    IrregularArgvals(
        {
            0: DenseArgvals({"input_dim_0": np.array([0.0, 1.0])}),
            1: DenseArgvals({"input_dim_0": np.array([0.0, 0.25, 0.75, 1.0])}),
        }
    ),
    IrregularArgvals(
        {
            0: DenseArgvals({"input_dim_0": np.array([0.0, 0.5, 1.0])}),
            1: DenseArgvals({"input_dim_0": np.array([0.0, 0.25, 0.75, 1.0])}),
        }
    ),
)

if failures:
    print(f"\nFAIL: {failures}")
    sys.exit(1)
print("\nPASS")
