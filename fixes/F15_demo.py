"""F15a/b/c: results sharing mutable state with their inputs."""
import numpy as np
from harness import fd
from FDApy.representation.functional_data import IrregularFunctionalData, BasisFunctionalData, MultivariateFunctionalData
from FDApy.representation.basis import Basis
from FDApy.representation.argvals import DenseArgvals
a = fd.irregular([[0., 1., 2.]], [[1., 2., 3.]]); b = fd.irregular([[0., 1.]], [[4., 5.]])
c = IrregularFunctionalData.concatenate(a, b)
assert not np.shares_memory(c.values[0], a.values[0]), "F15c: concatenate shares arrays with its inputs"
t = np.linspace(0, 1, 11)
bd = BasisFunctionalData(basis=Basis(name="fourier", n_functions=3, argvals=DenseArgvals({"input_dim_0": t})),
                         coefficients=np.arange(6.).reshape(2, 3))
s = bd.standardize(center=False)
assert not np.shares_memory(s.coefficients, bd.coefficients), "F15a: standardize(center=False) shares the coefficients"
d = fd.dense(t, np.ones((2, 11)))
mv = MultivariateFunctionalData([d, d])
g = mv.to_grid()
assert g.data[0] is not mv.data[0], "F15b: to_grid returns the input's own component objects"
print("ok")
