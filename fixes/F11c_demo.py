"""F11c: `BasisFunctionalData.standardize` must not modify its input.

Property tested: `standardize` returns new data and leaves `self` unchanged (same
basis values, same coefficients, same curves on the grid), like the dense and
irregular versions; hence calling it twice gives the same result, and other data
sharing the same Basis object are not affected.
"""
import sys
import warnings

import numpy as np

from FDApy.representation.argvals import DenseArgvals
from FDApy.representation.basis import Basis
from FDApy.representation.functional_data import BasisFunctionalData

warnings.simplefilter("ignore")
failures = []

rng = np.random.default_rng(0)
argvals = DenseArgvals({"input_dim_0": np.linspace(0, 1, 51)})
basis = Basis(name="fourier", n_functions=3, argvals=argvals)
fdata = BasisFunctionalData(basis=basis, coefficients=rng.normal(size=(10, 3)))
other = BasisFunctionalData(basis=basis, coefficients=rng.normal(size=(4, 3)))

for center in (True, False):
    basis_before = np.array(fdata.basis.values)
    coef_before = np.array(fdata.coefficients)
    grid_before = np.array(fdata.to_grid().values)
    other_before = np.array(other.to_grid().values)

    first = np.array(fdata.standardize(center=center).to_grid().values)
    second = np.array(fdata.standardize(center=center).to_grid().values)

    checks = {
        "basis values of the input unchanged": np.array_equal(
            basis_before, fdata.basis.values
        ),
        "coefficients of the input unchanged": np.array_equal(
            coef_before, fdata.coefficients
        ),
        "input curves unchanged": np.allclose(grid_before, fdata.to_grid().values),
        "data sharing the basis unchanged": np.allclose(
            other_before, other.to_grid().values
        ),
        "two calls give the same result": np.allclose(first, second),
        "result has unit pointwise variance": np.allclose(first.std(axis=0), 1)
        if center
        else True,
    }
    change = np.max(np.abs(basis_before - fdata.basis.values))
    print(f"standardize(center={center}): max change of the input basis = {change:.3e}")
    for name, ok in checks.items():
        print(f"    {name}: {bool(ok)}")
        if not ok:
            failures.append((center, name))

if failures:
    print(f"\nFAIL: {failures}")
    sys.exit(1)
print("\nPASS")
