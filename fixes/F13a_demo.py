"""F13a: `add_noise_and_sparsify` must restore `data` when the sparsification fails.

`add_noise_and_sparsify` temporarily replaces `self.data` by the noisy data to
sparsify them. Sparsification is not implemented for 2-D data and raises a
ValueError. Property tested: after this (expected) error, `simulation.data` is still
the noise-free simulated data.
"""
import sys
import warnings

import numpy as np

from FDApy.simulation.karhunen import KarhunenLoeve

warnings.simplefilter("ignore")

kl = KarhunenLoeve(
    basis_name=("fourier", "fourier"), n_functions=(3, 3), random_state=42
)
kl.new(n_obs=5)
clean = kl.data
clean_values = np.array(clean.values)
print(f"simulated data: {clean.n_obs} observations on a {clean.n_dimension}-D domain")

try:
    kl.add_noise_and_sparsify(noise_variance=1.0, percentage=0.5, epsilon=0.05)
except ValueError as err:
    print(f"add_noise_and_sparsify raises ValueError: {err}")
else:
    print("add_noise_and_sparsify did not raise: the demo does not apply")
    sys.exit(2)

restored = kl.data is clean
is_noisy = kl.data is kl.noisy_data
change = np.max(np.abs(np.array(kl.data.values) - clean_values))
print(f"`data` is the original object: {restored}; `data` is `noisy_data`: {is_noisy}; "
      f"max|data - original| = {change:.3f}")
if not restored or change != 0:
    print("\nFAIL: the noise-free data have been replaced by the noisy data")
    sys.exit(1)

# The normal path is unchanged (1-D data).
kl = KarhunenLoeve(basis_name="fourier", n_functions=3, random_state=42)
kl.new(n_obs=5)
clean = kl.data
kl.add_noise_and_sparsify(noise_variance=1.0, percentage=0.5, epsilon=0.05)
assert kl.data is clean and kl.noisy_data is not clean and kl.sparse_data.n_obs == 5
print("\nPASS")
