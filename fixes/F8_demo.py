"""F8: `==` between functional data must be a total, value-aware equality.

Property tested: `a == b` is a bool for any pair of objects; it is True if and only
if both objects have the same sampling points, the same number of observations and
(numerically) the same values. Consequences for containers: `x in multivariate`,
`multivariate.index(x)` and `multivariate.remove(x)` behave like for lists.
"""
import sys

import numpy as np

from FDApy.representation.argvals import DenseArgvals, IrregularArgvals
from FDApy.representation.values import DenseValues, IrregularValues
from FDApy.representation.functional_data import (
    DenseFunctionalData,
    IrregularFunctionalData,
    MultivariateFunctionalData,
)

failures = []


def dense(values, n_points=5):
    values = np.asarray(values, dtype=float)
    t = np.linspace(0, 1, values.shape[1])
    return DenseFunctionalData(DenseArgvals({"input_dim_0": t}), DenseValues(values))


def irregular(values, grids=((0.0, 1.0, 2.0), (0.0, 2.0))):
    return IrregularFunctionalData(
        IrregularArgvals(
            {
                i: DenseArgvals({"input_dim_0": np.array(grid)})
                for i, grid in enumerate(grids)
            }
        ),
        IrregularValues({i: np.array(val, dtype=float) for i, val in enumerate(values)}),
    )


def check(label, call, expected):
    try:
        result = call()
        outcome = repr(result)
        ok = isinstance(result, bool) and result == expected
    except Exception as err:  # noqa
        outcome = f"raises {type(err).__name__}: {err}"
        ok = False
    print(f"{label:58s} -> {outcome:12.60s} (expected {expected})  {'ok' if ok else 'WRONG'}")
    if not ok:
        failures.append(label)


irr_a = irregular(([1, 2, 3], [4, 5]))
irr_a_copy = irregular(([1, 2, 3], [4, 5 + 1e-12]))
irr_b = irregular(([10, 20, 30], [40, 50]))
irr_c = irregular(([1, 2, 3], [4, 5]), grids=((0.0, 1.0, 2.0), (0.0, 1.0)))
irr_d = irregular(([1, 2, 3],), grids=((0.0, 1.0, 2.0),))
check("irregular == itself", lambda: irr_a == irr_a, True)
check("irregular == copy (same values)", lambda: irr_a == irr_a_copy, True)
check("irregular == same argvals, other values", lambda: irr_a == irr_b, False)
check("irregular == other argvals, same values", lambda: irr_a == irr_c, False)
check("irregular == fewer observations", lambda: irr_a == irr_d, False)

ones = dense(np.ones((3, 5)))
check("dense == itself", lambda: ones == ones, True)
check("dense == copy", lambda: ones == dense(np.ones((3, 5)) + 1e-12), True)
check("dense == other values", lambda: ones == dense(2 * np.ones((3, 5))), False)
check("dense (3 obs, 5 pts) == dense (3 obs, 7 pts)", lambda: ones == dense(np.ones((3, 7))), False)
check("dense (3 obs) == dense (4 obs), same grid", lambda: ones == dense(np.ones((4, 5))), False)
check("dense (3 obs) == dense (1 obs), same grid", lambda: ones == dense(np.ones((1, 5))), False)
check("dense != dense (3 obs, 7 pts)", lambda: ones != dense(np.ones((3, 7))), True)
check("dense == irregular", lambda: ones == irr_a, False)
check("irregular == dense", lambda: irr_a == ones, False)
check("dense == 3", lambda: ones == 3, False)
check("dense == None", lambda: ones == None, False)  # noqa

fd1, fd2 = dense(np.ones((2, 5))), dense(np.zeros((2, 7)))
irr_1 = irregular(([1, 2, 3], [4, 5]))
irr_2 = irregular(([10, 20, 30], [40, 50]))
multi = MultivariateFunctionalData([fd1, irr_1, fd2])
check("dense (7 pts) in [dense (5 pts), irregular, dense (7 pts)]", lambda: dense(np.zeros((2, 7))) in multi, True)
check("other irregular values in multivariate", lambda: irr_2 in multi, False)
check("index(dense (7 pts)) == 2", lambda: multi.index(dense(np.zeros((2, 7)))) == 2, True)


def remove():
    multi.remove(dense(np.zeros((2, 7))))
    return multi.n_functional == 2 and multi.data[0] is fd1 and multi.data[1] is irr_1


check("remove(dense (7 pts)) removes the last component", remove, True)

if failures:
    print(f"\nFAIL: {len(failures)} comparison(s) are wrong")
    sys.exit(1)
print("\nPASS")
