"""F11a: `standardize` where the pointwise standard deviation is zero.

Property tested: the standardized curves are deterministic and finite. Where the
standard deviation is zero (all the curves coincide), the centred curves are zero and
the standardized value is 0; elsewhere it is (x - mean) / std.
Before the fix, those cells are never written (`np.divide(..., where=...)` without
`out=`), i.e. they contain whatever was in the memory block handed out by the
allocator. To make this visible, blocks of the same size filled with a sentinel are
allocated and freed just before each call.
"""
import sys
import warnings

import numpy as np

from FDApy.representation.argvals import DenseArgvals, IrregularArgvals
from FDApy.representation.values import DenseValues, IrregularValues
from FDApy.representation.functional_data import (
    DenseFunctionalData,
    IrregularFunctionalData,
)

warnings.simplefilter("ignore")
np.seterr(all="ignore")
failures = []


def pollute(shape, value):
    """Fill and release memory blocks of the size of the result."""
    blocks = [np.full(shape, value) for _ in range(8)]
    del blocks


def report(label, results, expected_zero, reference=None):
    first, second = results
    finite = bool(np.all(np.isfinite(first)) and np.all(np.isfinite(second)))
    same = bool(np.array_equal(first, second))
    zero = bool(np.all(first[expected_zero] == 0) and np.all(second[expected_zero] == 0))
    ok = finite and same and zero
    if reference is not None:
        ok = ok and bool(np.allclose(first[~expected_zero], reference[~expected_zero]))
    print(
        f"{label}: finite={finite}, identical across two calls={same}, "
        f"0 where std == 0: {zero}; values there: "
        f"{np.unique(first[expected_zero])[:3]} / {np.unique(second[expected_zero])[:3]}"
        f"  {'ok' if ok else 'WRONG'}"
    )
    if not ok:
        failures.append(label)


# --- Dense data: all the curves start at 0 and are equal on [0, 0.2].
rng = np.random.default_rng(0)
t = np.linspace(0, 1, 101)
coef = rng.normal(size=(20, 1))
values = 1 + coef * np.maximum(t - 0.2, 0)
dense = DenseFunctionalData(DenseArgvals({"input_dim_0": t}), DenseValues(values))
std = values.std(axis=0)
expected_zero = np.broadcast_to(std == 0, values.shape)
reference = np.zeros_like(values)
np.divide(values - values.mean(axis=0), std, out=reference, where=std != 0)
for center in (True, False):
    results = []
    for sentinel in (1e300, -7.0):
        pollute(values.shape, sentinel)
        results.append(np.array(dense.standardize(center=center).values))
    report(
        f"dense standardize(center={center})",
        results,
        expected_zero,
        reference if center else None,
    )

# --- Irregular data: curves observed on subsets of the grid, equal on [0, 0.2].
grids = {i: np.sort(rng.choice(t, 60, replace=False)) for i in range(20)}
irregular = IrregularFunctionalData(
    IrregularArgvals({i: DenseArgvals({"input_dim_0": g}) for i, g in grids.items()}),
    IrregularValues({i: 1 + coef[i] * np.maximum(g - 0.2, 0) for i, g in grids.items()}),
)
results = []
for sentinel in (1e300, -7.0):
    for n in set(len(g) for g in grids.values()):
        pollute((n,), sentinel)
    res = irregular.standardize(method_smoothing="PS")
    results.append(np.concatenate([res.values[i] for i in range(20)]))
# Where all the curves coincide, the smoothed variance estimate is numerically zero
# (tiny, of either sign): the standard deviation is not a positive number there.
centered = irregular.center(method_smoothing="PS")
variance = np.diag(centered.covariance(method_smoothing="PS").values.squeeze())
no_std = t[~(np.sqrt(variance) > 1e-12)]
print(f"irregular: no positive standard deviation estimate at t = {no_std}")
expected_zero = np.concatenate([np.isin(g, no_std) for g in grids.values()])
report("irregular standardize()", results, expected_zero)

if failures:
    print(f"\nFAIL: {failures}")
    sys.exit(1)
print("\nPASS")
