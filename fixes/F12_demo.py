"""F12: `Datasets(..., random_state=seed)` must be reproducible.

Property tested: two simulators created with the same `random_state` generate the
same data, whatever the state of the global NumPy generator; the data are the ones
obtained from the seeded generator (independent computation of the Zhang and Chen
(2007) model with `np.random.default_rng(seed)`); different seeds give different data.
"""
import sys

import numpy as np

from FDApy.simulation.datasets import Datasets


def simulate(seed, global_seed):
    np.random.seed(global_seed)
    dataset = Datasets("zhang_chen", random_state=seed)
    dataset.new(n_obs=5, argvals=np.linspace(0, 1, 11))
    return np.array(dataset.data.values)


def reference(seed, n_obs=5):
    """Zhang and Chen (2007) simulation, written independently of FDApy."""
    rng = np.random.default_rng(seed)
    t = np.linspace(0, 1, 11)
    cos, sin = np.cos(2 * np.pi * t), np.sin(2 * np.pi * t)
    out = np.zeros((n_obs, len(t)))
    for i in range(n_obs):
        coefs = rng.normal(0, (1, np.sqrt(2), np.sqrt(3)))
        eps = rng.normal(0, np.sqrt(0.1 * (1 + t)))
        out[i] = 1.2 + 2.3 * cos + 4.2 * sin + coefs[0] + coefs[1] * cos + coefs[2] * sin + eps
    return out


first = simulate(seed=3, global_seed=0)
second = simulate(seed=3, global_seed=1)
other = simulate(seed=4, global_seed=0)
diff = np.max(np.abs(first - second))
diff_ref = np.max(np.abs(first - reference(3)))
print(f"first curve, first run : {np.round(first[0, :4], 4)}")
print(f"first curve, second run: {np.round(second[0, :4], 4)}")
print(f"max difference between two runs with random_state=3: {diff:.3e}")
print(f"max difference with the seeded reference simulation : {diff_ref:.3e}")
print(f"max difference between random_state=3 and 4         : "
      f"{np.max(np.abs(first - other)):.3e}")

if not (diff == 0 and diff_ref < 1e-12 and not np.allclose(first, other)):
    print("\nFAIL: the simulation does not use the seeded generator")
    sys.exit(1)
print("\nPASS")
