"""F11b: `MFPCA.fit` must not consume the user's `univariate_expansions`.

Property tested: fitting is a function of (configuration, data): the dictionaries
given by the user are unchanged by `fit`, and fitting the same MFPCA object twice on
the same data gives the same eigenvalues (and the same number of univariate
components, here 3 per component with UFPCA and not the defaults: P-splines).
"""
import copy
import sys
import warnings

import numpy as np

from FDApy.representation.argvals import DenseArgvals
from FDApy.representation.values import DenseValues
from FDApy.representation.functional_data import (
    DenseFunctionalData,
    MultivariateFunctionalData,
)
from FDApy.preprocessing.dim_reduction.mfpca import MFPCA

warnings.simplefilter("ignore")


def make(seed, n_obs=30, n_points=101):
    rng = np.random.default_rng(seed)
    t = np.linspace(0, 1, n_points)
    basis = np.sqrt(2) * np.stack(
        [np.sin(2 * np.pi * t), np.cos(2 * np.pi * t), np.sin(4 * np.pi * t)]
    )
    coef = rng.normal(size=(n_obs, 3)) * np.array([3.0, 2.0, 1.0])
    return DenseFunctionalData(
        DenseArgvals({"input_dim_0": t}), DenseValues(coef @ basis + t)
    )


data = MultivariateFunctionalData([make(1), make(2)])
expansions = [
    {"method": "UFPCA", "n_components": 3},
    {"method": "UFPCA", "n_components": 3},
]
snapshot = copy.deepcopy(expansions)

mfpca = MFPCA(n_components=4, method="covariance", univariate_expansions=expansions)
mfpca.fit(data)
first = np.array(mfpca.eigenvalues)
n_uni_first = mfpca._scores_univariate.shape[1]
print(f"configuration before fit: {snapshot}")
print(f"configuration after fit : {expansions}")
print(f"1st fit: {n_uni_first} univariate scores, eigenvalues {np.round(first, 4)}")
mfpca.fit(data)
second = np.array(mfpca.eigenvalues)
n_uni_second = mfpca._scores_univariate.shape[1]
print(f"2nd fit: {n_uni_second} univariate scores, eigenvalues {np.round(second, 4)}")

ok = (
    expansions == snapshot
    and n_uni_first == n_uni_second == 6
    and np.allclose(first, second, rtol=1e-10)
)
if not ok:
    print("\nFAIL: the configuration was modified by `fit` / the second fit differs")
    sys.exit(1)
print("\nPASS")
