"""F5: local polynomial regression on data far from the origin.

Property tested: `LocalPolynomial.predict` returns, at each query point x0, the value
at x0 of the polynomial of degree `degree` fitted by weighted least squares with the
weights K(|x - x0| / h). The reference is an independent NumPy computation
(np.linalg.lstsq on the sqrt(w)-weighted rows of the design in (x - x0) / h, whose
intercept is the fitted value at x0).
"""
import sys
from itertools import combinations_with_replacement

import numpy as np

from FDApy.preprocessing.smoothing.local_polynomial import LocalPolynomial

failures = []


def kernel(name, u):
    if name == "epanechnikov":
        return np.where(np.abs(u) <= 1, 0.75 * (1 - u**2), 0.0)
    return np.exp(-(u**2) / 2) / np.sqrt(2 * np.pi)


def reference(y, x, x_new, bandwidth, degree, name):
    x = x.reshape(len(x), -1)
    x_new = x_new.reshape(len(x_new), -1)
    out = np.zeros(len(x_new))
    for i, x0 in enumerate(x_new):
        u = (x - x0) / bandwidth
        cols = [np.ones(len(x))]
        for deg in range(1, degree + 1):
            for comb in combinations_with_replacement(range(x.shape[1]), deg):
                cols.append(np.prod(u[:, comb], axis=1))
        design = np.column_stack(cols)
        sw = np.sqrt(kernel(name, np.linalg.norm(u, axis=1)))
        beta = np.linalg.lstsq(design * sw[:, None], y * sw, rcond=None)[0]
        out[i] = beta[0]
    return out


def check(label, y, x, x_new, bandwidth, degree, name, tol=1e-8):
    lp = LocalPolynomial(kernel_name=name, bandwidth=bandwidth, degree=degree)
    pred = lp.predict(y=y, x=x, x_new=x_new)
    ref = reference(y, x, x_new, bandwidth, degree, name)
    err = np.max(np.abs(pred - ref))
    ok = err < tol
    print(
        f"{label:28s} {name:12s} degree={degree} h={bandwidth}: "
        f"max|pred - WLS| = {err:.3e}  {'ok' if ok else 'WRONG'}"
    )
    if not ok:
        failures.append((label, name, degree))


rng = np.random.default_rng(0)

# days of the year: x = 1..365
x = np.arange(1.0, 366.0)
y = 10 * np.sin(2 * np.pi * x / 365) + 0.3 * rng.normal(size=len(x))
for name in ("epanechnikov", "gaussian"):
    for degree in range(4):
        check("x=1..365", y, x, x[::7], 30, degree, name)

# translation invariance: the same curve observed on x + 1000
lp = LocalPolynomial(kernel_name="epanechnikov", bandwidth=30, degree=2)
shift = np.max(np.abs(lp.predict(y=y, x=x) - lp.predict(y=y, x=x + 1000.0)))
print(f"{'shift x -> x + 1000':28s} epanechnikov degree=2 h=30: max diff = {shift:.3e}")
if shift > 1e-8:
    failures.append(("shift", "epanechnikov", 2))

# [0, 1] data (the setting of the test suite): right before and after the fix
x = np.linspace(0, 1, 101)
y = np.sin(2 * np.pi * x) + 0.1 * rng.normal(size=len(x))
for name in ("epanechnikov", "gaussian"):
    for degree in range(4):
        check("x in [0, 1]", y, x, x[::5], 0.3, degree, name)

# two-dimensional inputs on [0, 1]^2 and far from the origin
pts = np.linspace(0, 1, 11)
xx, yy = np.meshgrid(pts, pts, indexing="ij")
x2 = np.column_stack([xx.ravel(), yy.ravel()])
y2 = np.sin(x2[:, 0]) * np.cos(x2[:, 1]) + 0.05 * rng.normal(size=len(x2))
x2_new = np.array([[0.3, 0.1], [0.5, 0.5], [1.0, 0.0]])
for degree in range(3):
    check("2-D, [0, 1]^2", y2, x2, x2_new, 0.5, degree, "epanechnikov")
    check("2-D, [200, 300]^2", y2, 200 + 100 * x2, 200 + 100 * x2_new, 50, degree, "gaussian")

if failures:
    print(f"\nFAIL: {len(failures)} configuration(s) differ from weighted least squares")
    sys.exit(1)
print("\nPASS")
