"""F14a: _format_data truncates the responses when the abscissae are integers."""
import numpy as np
from FDApy.preprocessing.smoothing.psplines import _format_data
X = np.array([[0], [1], [2], [3]])          # integer abscissae, as read_csv gives for integer headers
y = np.array([0.5, 0.75, -2.0, 1.0])
_, new_y, _ = _format_data(X, y)
print(new_y)
assert np.allclose(new_y, y), "responses were truncated to the dtype of the abscissae"
