"""F4: diagonal of the hat matrix of n-dimensional P-splines.

Property tested: `PSplines.fit(...).diagnostics["hat_matrix"]` is the diagonal of
H = B (B'WB + P)^{-1} B'W, with B the Kronecker product of the marginal B-spline
bases (row-major, matching y.ravel()) and P = sum_d lambda_d (I x ... x D_d'D_d x
... x I). The explicit H also has to reproduce the fitted values (H y = y_hat), which
checks that the explicit computation describes the same smoother as the class.
"""
import sys
from functools import reduce

import numpy as np

from FDApy.preprocessing.smoothing.psplines import PSplines

failures = []


def explicit_hat(ps, y, weights, penalty):
    # marginal bases built by the class itself, shape (n_points_d, n_basis_d)
    bases = [basis.T for basis in ps.basis]
    n_basis = [basis.shape[1] for basis in bases]
    b_mat = reduce(np.kron, bases)
    pen = np.zeros((b_mat.shape[1], b_mat.shape[1]))
    for d, (lam, m) in enumerate(zip(penalty, n_basis)):
        diff = np.diff(np.eye(m), n=ps.order_penalty, axis=0)
        mats = [np.eye(k) for k in n_basis]
        mats[d] = diff.T @ diff
        pen += lam * reduce(np.kron, mats)
    w_mat = np.diag(weights.ravel())
    inv = np.linalg.pinv(b_mat.T @ w_mat @ b_mat + pen)
    return b_mat @ inv @ b_mat.T @ w_mat


def check(shape, n_segments, degree, penalty, weighted):
    rng = np.random.default_rng(0)
    x = [np.linspace(0, 1, n) for n in shape]
    grid = np.meshgrid(*x, indexing="ij")
    y = np.sin(2 * np.pi * grid[0]) * np.cos(np.pi * grid[1])
    if len(shape) == 3:
        y = y * (1 + grid[2])
    y = y + 0.1 * rng.normal(size=shape)
    weights = rng.uniform(0.5, 1.5, size=shape) if weighted else np.ones(shape)

    ps = PSplines(n_segments=np.array(n_segments), degree=np.array(degree))
    ps.fit(y, x, sample_weights=weights, penalty=penalty)
    n_basis = tuple(basis.shape[0] for basis in ps.basis)

    hat = explicit_hat(ps, y, weights, penalty)
    err_fit = np.max(np.abs((hat @ y.ravel()).reshape(shape) - ps.y_hat))
    assert err_fit < 1e-8, f"explicit smoother does not match y_hat ({err_fit})"
    diag = np.diag(hat).reshape(shape)
    err = np.max(np.abs(ps.diagnostics["hat_matrix"] - diag))
    trace = (ps.diagnostics["hat_matrix"].sum(), diag.sum())
    ok = err < 1e-8
    print(
        f"grid {shape}, n_basis {n_basis}, weighted={weighted}: "
        f"max|diag(H) - diagnostics| = {err:.3e}, "
        f"ED = {trace[0]:.4f} (explicit {trace[1]:.4f})  {'ok' if ok else 'WRONG'}"
    )
    if not ok:
        failures.append((shape, n_basis))


# equal marginal basis sizes in 2D (already right before the fix)
check((12, 9), (3, 3), (3, 3), (0.5, 2.0), weighted=False)
check((12, 9), (3, 3), (3, 3), (0.5, 2.0), weighted=True)
# 6 and 3 basis functions
check((12, 9), (3, 1), (3, 2), (0.5, 2.0), weighted=False)
check((12, 9), (3, 1), (3, 2), (0.5, 2.0), weighted=True)
check((9, 12), (1, 3), (2, 3), (2.0, 0.5), weighted=True)
# three dimensions, three different sizes (5, 4, 3) and equal sizes (4, 4, 4)
check((7, 6, 5), (3, 2, 1), (2, 2, 2), (0.5, 1.0, 2.0), weighted=False)
check((7, 6, 5), (3, 2, 1), (2, 2, 2), (0.5, 1.0, 2.0), weighted=True)
check((7, 6, 5), (2, 2, 2), (2, 2, 2), (0.5, 1.0, 2.0), weighted=True)

if failures:
    print(f"\nFAIL: wrong hat-matrix diagonal for {failures}")
    sys.exit(1)
print("\nPASS")
