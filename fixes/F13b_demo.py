"""F13b: every sparsified curve must keep at least two distinct sampling points.

`_sparsify_univariate_data` keeps each point of a curve with probability p; when
fewer than two points are kept it draws two points at random. Property tested: every
sparsified curve has at least two observed (non-NaN) values, for the global and for a
seeded generator.
"""
import sys

import numpy as np

from FDApy.simulation.karhunen import KarhunenLoeve
from FDApy.representation.argvals import DenseArgvals

failures = []
argvals = DenseArgvals({"input_dim_0": np.linspace(0, 1, 5)})
for random_state in (42, None):
    np.random.seed(0)
    kl = KarhunenLoeve(
        basis_name="fourier", n_functions=3, argvals=argvals, random_state=random_state
    )
    kl.new(n_obs=500)
    kl.sparsify(percentage=0.01, epsilon=0.01)
    n_kept = np.array(
        [int(np.sum(~np.isnan(values))) for values in kl.sparse_data.values.values()]
    )
    counts = {int(k): int(np.sum(n_kept == k)) for k in np.unique(n_kept)}
    print(f"random_state={random_state}: number of curves by number of kept points: {counts}")
    if n_kept.min() < 2:
        failures.append(random_state)

if failures:
    print(f"\nFAIL: some curves have fewer than two sampling points ({failures})")
    sys.exit(1)
print("\nPASS")
