"""F11d: BasisFunctionalData.standardize leaves cells uninitialised where the pointwise std is 0."""
import numpy as np
from FDApy.representation.basis import Basis
from FDApy.representation.functional_data import BasisFunctionalData
from FDApy.representation.argvals import DenseArgvals
t = np.linspace(0, 1, 31)
outs = []
for sentinel in (1e300, -7.25):
    junk = [np.full((4, 31), sentinel) for _ in range(50)]; del junk      # make garbage likely
    b = Basis(name="wiener", n_functions=4, argvals=DenseArgvals({"input_dim_0": t}))   # all functions vanish at t=0
    bd = BasisFunctionalData(basis=b, coefficients=np.arange(12.).reshape(3, 4) ** 2)
    outs.append(np.asarray(bd.standardize().to_grid().values))
print(outs[0][:, 0], outs[1][:, 0])
assert np.all(np.isfinite(outs[0])) and np.array_equal(outs[0], outs[1]), "value at the zero-variance point depends on memory garbage"
