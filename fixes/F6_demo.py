"""F6: P-splines predictions must not depend on the set of requested points.

A fitted P-spline is a function: its value at a location t is sum_k beta_k B_k(t),
with B_k the B-spline basis used for the fit. Properties tested:
 (a) `PSplines.predict(x_new)`: predicting at the fitting grid gives `y_hat`, and the
     prediction at a location is the same whether we ask for the full grid, a
     sub-range, a thinned grid or a single point (1-D and 2-D); same for
     `DenseFunctionalData.smooth(points=..., method="PS")`;
 (b) `IrregularFunctionalData.smooth(points=..., method="PS")`: same property.
"""
import sys
import warnings

import numpy as np

from FDApy.preprocessing.smoothing.psplines import PSplines
from FDApy.representation.argvals import DenseArgvals, IrregularArgvals
from FDApy.representation.values import DenseValues, IrregularValues
from FDApy.representation.functional_data import (
    DenseFunctionalData,
    IrregularFunctionalData,
)

warnings.simplefilter("ignore")
np.seterr(all="ignore")
failures = []


def report(label, value, reference):
    err = np.max(np.abs(np.asarray(value) - np.asarray(reference)))
    ok = bool(err < 1e-10)  # False for nan
    print(f"{label:68s} max diff = {err:.3e}  {'ok' if ok else 'WRONG'}")
    if not ok:
        failures.append(label)


rng = np.random.default_rng(0)

# (a) PSplines, one-dimensional
x = np.linspace(0, 1, 51)
y = np.sin(2 * np.pi * x) + 0.1 * rng.normal(size=len(x))
ps = PSplines(n_segments=10, degree=3).fit(y, x, penalty=(1.0,))
full = ps.predict(x)
report("(a) 1-D predict(fit grid) == y_hat", full, ps.y_hat)
sub = (x >= 0.2) & (x <= 0.8)
report("(a) 1-D predict(sub-range [0.2, 0.8])", ps.predict(x[sub]), full[sub])
report("(a) 1-D predict(thinned interior grid)", ps.predict(x[3:-3:5]), full[3:-3:5])
report("(a) 1-D predict(single point 0.5)", ps.predict(x[25:26]), full[25:26])

# (a) PSplines, two-dimensional
x1, x2 = np.linspace(0, 1, 21), np.linspace(0, 2, 15)
g1, g2 = np.meshgrid(x1, x2, indexing="ij")
y2 = np.sin(2 * np.pi * g1) * np.cos(g2) + 0.1 * rng.normal(size=g1.shape)
ps2 = PSplines(n_segments=np.array([6, 4]), degree=np.array([3, 2]))
ps2.fit(y2, [x1, x2], penalty=(1.0, 0.5))
full2 = ps2.predict([x1, x2])
report("(a) 2-D predict(fit grid) == y_hat", full2, ps2.y_hat)
report(
    "(a) 2-D predict(sub-grid)", ps2.predict([x1[4:15], x2[2:9]]), full2[4:15, 2:9]
)

# (a) DenseFunctionalData.smooth
fdata = DenseFunctionalData(DenseArgvals({"input_dim_0": x}), DenseValues(y[None]))
smooth_full = fdata.smooth(method="PS", penalty=(1.0,)).values
smooth_sub = fdata.smooth(
    points=DenseArgvals({"input_dim_0": x[sub]}), method="PS", penalty=(1.0,)
).values
report("(a) DenseFunctionalData.smooth(points=sub-range)", smooth_sub, smooth_full[:, sub])

# (b) IrregularFunctionalData.smooth
grids = [x[::2], x[1::2], np.sort(rng.choice(x, 30, replace=False))]
irregular = IrregularFunctionalData(
    IrregularArgvals({i: DenseArgvals({"input_dim_0": g}) for i, g in enumerate(grids)}),
    IrregularValues(
        {
            i: np.sin(2 * np.pi * g) * (i + 1) + 0.1 * rng.normal(size=len(g))
            for i, g in enumerate(grids)
        }
    ),
)
union = irregular.argvals.to_dense()["input_dim_0"]
smooth_full = irregular.smooth(method="PS", penalty=(1.0,)).values
sub = (union >= 0.2) & (union <= 0.8)
smooth_sub = irregular.smooth(
    points=DenseArgvals({"input_dim_0": union[sub]}), method="PS", penalty=(1.0,)
).values
report(
    "(b) IrregularFunctionalData.smooth(points=sub-range)", smooth_sub, smooth_full[:, sub]
)
smooth_thin = irregular.smooth(
    points=DenseArgvals({"input_dim_0": union[::4]}), method="PS", penalty=(1.0,)
).values
report(
    "(b) IrregularFunctionalData.smooth(points=thinned full range)",
    smooth_thin,
    smooth_full[:, ::4],
)

if failures:
    print(f"\nFAIL: {len(failures)} prediction(s) depend on the requested points")
    sys.exit(1)
print("\nPASS")
